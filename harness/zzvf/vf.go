// Package zzvf is the harness API shared by the symbolic engine (which
// intercepts these functions by name) and native replays (which read the
// values of one solver model from the file named by $VERIF_REPLAY).
//
// It exists only in the go/packages / go build overlay; /repo is not edited.
package zzvf

import (
	"encoding/json"
	"fmt"
	"os"
	"reflect"
	"sync"
	"time"
)

type replayFile struct {
	Inputs  map[string]uint64   `json:"inputs"`
	Bytes   map[string][]uint64 `json:"bytes"`
	Strs    map[string]string   `json:"strs"`
	Choices map[string]int      `json:"choices"`
	Tier    string              `json:"tier"`
}

var (
	mu      sync.Mutex
	loaded  bool
	rf      replayFile
	counts  = map[string]int{}
	Failed  []string // labels of failed assertions
	Reached []string
	clock   int64 = 1_700_000_000_000_000_000
	crashCh chan struct{}
)

func load() {
	if loaded {
		return
	}
	loaded = true
	p := os.Getenv("VERIF_REPLAY")
	if p == "" {
		return
	}
	b, err := os.ReadFile(p)
	if err != nil {
		panic("zzvf: cannot read replay file: " + err.Error())
	}
	if err := json.Unmarshal(b, &rf); err != nil {
		panic("zzvf: bad replay file: " + err.Error())
	}
}

// Reset clears per-run state (for tests that run several replays).
func Reset() {
	mu.Lock()
	defer mu.Unlock()
	counts = map[string]int{}
	Failed, Reached = nil, nil
	clock = 1_700_000_000_000_000_000
}

// LoadReplayFile makes the values of one solver model the inputs of the next harness run.
func LoadReplayFile(path string) error {
	Reset()
	mu.Lock()
	defer mu.Unlock()
	rf = replayFile{}
	loaded = true
	b, err := os.ReadFile(path)
	if err != nil {
		return err
	}
	return json.Unmarshal(b, &rf)
}

func uname(name string) string {
	mu.Lock()
	defer mu.Unlock()
	load()
	n := counts[name]
	counts[name] = n + 1
	if n == 0 {
		return name
	}
	return fmt.Sprintf("%s#%d", name, n)
}

func u64(name string) uint64 { return rf.Inputs[uname(name)] }

func Int(name string) int         { return int(u64(name)) }
func Int64(name string) int64     { return int64(u64(name)) }
func Int32(name string) int32     { return int32(u64(name)) }
func Int16(name string) int16     { return int16(u64(name)) }
func Int8(name string) int8       { return int8(u64(name)) }
func Uint(name string) uint       { return uint(u64(name)) }
func Uint64(name string) uint64   { return u64(name) }
func Uint32(name string) uint32   { return uint32(u64(name)) }
func Uint16(name string) uint16   { return uint16(u64(name)) }
func Byte(name string) byte       { return byte(u64(name)) }
func Bool(name string) bool       { return u64(name) != 0 }
func Float64(name string) float64 { return float64frombits(u64(name)) }
func Float32(name string) float32 { return float32frombits(uint32(u64(name))) }

// Bytes returns n bytes whose contents are symbolic.
func Bytes(name string, n int) []byte {
	un := uname(name)
	b := make([]byte, n)
	for i, v := range rf.Bytes[un] {
		if i < n {
			b[i] = byte(v)
		}
	}
	return b
}

// ByteString returns a string of n symbolic bytes.
func ByteString(name string, n int) string { return string(Bytes(name, n)) }

// Str returns an opaque string (equality only in the symbolic world).
func Str(name string) string { return rf.Strs[uname(name)] }

// Choose returns a value in [0,n); the engine explores every alternative.
func Choose(name string, n int) int { return rf.Choices[uname(name)] }

type assumeFailed struct{}

// Assume prunes executions that do not satisfy c.
func Assume(c bool) {
	if !c {
		panic(assumeFailed{})
	}
}

// Assert states a verification condition.
func Assert(c bool, label string) {
	if !c {
		mu.Lock()
		Failed = append(Failed, label)
		mu.Unlock()
		fmt.Printf("ZZVF-ASSERT-FAIL %s\n", label)
	}
}

// Reach is a vacuity witness.
func Reach(label string) {
	mu.Lock()
	Reached = append(Reached, label)
	mu.Unlock()
}

// Known names the input region of a recorded known finding.
func Known(id string, region bool) {}

func And(a, b bool) bool     { return a && b }
func Or(a, b bool) bool      { return a || b }
func Implies(a, b bool) bool { return !a || b }
func Not(a bool) bool        { return !a }
func IteInt(c bool, a, b int) int {
	if c {
		return a
	}
	return b
}

// Eq is deep equality (symbolic-aware in the engine).
func Eq(a, b any) bool { return reflect.DeepEqual(a, b) }

func BytesEq(a, b []byte) bool { return string(a) == string(b) }

// Observe records a value compared between the symbolic and the native run.
func Observe(label string, v any) { fmt.Printf("ZZVF-OBSERVE %s %v\n", label, v) }

// MayPanic runs f and reports whether it panicked.
func MayPanic(f func()) (panicked bool) {
	defer func() {
		if r := recover(); r != nil {
			if _, ok := r.(assumeFailed); ok {
				panic(r)
			}
			panicked = true
		}
	}()
	f()
	return false
}

// Crash models the death of the process: nothing after it runs, no deferred
// function of the code under test runs. Only valid below CatchCrash.
func Crash() {
	if crashCh == nil {
		panic("zzvf.Crash outside CatchCrash")
	}
	crashCh <- struct{}{}
	select {} // park this goroutine for ever
}

// CatchCrash runs f; if f calls Crash it returns true at that instant.
func CatchCrash(f func()) (crashed bool) {
	crashCh = make(chan struct{})
	done := make(chan any, 1)
	go func() {
		defer func() { done <- recover() }()
		f()
	}()
	select {
	case <-crashCh:
		crashCh = nil
		return true
	case r := <-done:
		crashCh = nil
		if r != nil {
			panic(r)
		}
		return false
	}
}

// Symbolic reports whether the harness runs under the symbolic engine.
func Symbolic() bool { return false }

// Thorough reports whether the thorough tier was requested.
func Thorough() bool { load(); return rf.Tier == "thorough" || os.Getenv("VERIF_TIER") == "thorough" }

// ClockSymbolic makes every NowNanos step a free amount in [0,maxStep] (maxStep < 0: fixed
// 1 ms ticks) and every retry jitter sleep a solver variable.
func ClockSymbolic(maxStep int64) {}

// Advance moves the harness clock forward by d nanoseconds.
func Advance(d int64) { mu.Lock(); clock += d; advanced += d; mu.Unlock() }

var advanced int64

// Advanced is the total passed to Advance so far when run natively; under the engine it is
// 0 because Advance moves the model clock that time.Now reads. A harness that needs the code
// under test to see advanced time natively installs: sop.Now = func() time.Time {
// return time.Now().Add(time.Duration(zzvf.Advanced())) }.
func Advanced() int64 { mu.Lock(); defer mu.Unlock(); return advanced }

// NowNanos is the harness clock (nanoseconds); monotone.
func NowNanos() int64 {
	mu.Lock()
	defer mu.Unlock()
	clock += 1_000_000
	return clock
}

// Now is NowNanos as a time.Time.
func Now() time.Time { return time.Unix(0, NowNanos()) }

// Fresh is an unconstrained value that is not a replayable input.
func Fresh(name string) uint64 { return 0 }

// Replaying reports whether a replay file is loaded, and fails loudly if the
// harness was pruned by an Assume during replay.
func RunReplay(f func()) (pruned bool) {
	defer func() {
		if r := recover(); r != nil {
			if _, ok := r.(assumeFailed); ok {
				pruned = true
				fmt.Println("ZZVF-PRUNED")
				return
			}
			fmt.Printf("ZZVF-PANIC %v\n", r)
			panic(r)
		}
	}()
	f()
	return false
}

// IteByte is c ? a : b without branching (a term in the engine).
func IteByte(c bool, a, b byte) byte {
	if c {
		return a
	}
	return b
}

// IteInt64 is c ? a : b without branching.
func IteInt64(c bool, a, b int64) int64 {
	if c {
		return a
	}
	return b
}
