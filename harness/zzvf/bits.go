package zzvf

import "math"

func float64frombits(b uint64) float64 { return math.Float64frombits(b) }
func float32frombits(b uint32) float32 { return math.Float32frombits(b) }
