//go:build verif

package common

import (
	"context"

	"github.com/sharedcode/sop/zzvf"
)

// vfStoreListed reports how many times name occurs in the repository's store list and
// whether its store info can be fetched.
func vfStoreListed(w *vfWorld, name string) (listed int, hasInfo bool) {
	ctx := context.Background()
	names, _ := w.stores.GetAll(ctx)
	for _, n := range names {
		if n == name {
			listed++
		}
	}
	sis, _ := w.stores.Get(ctx, name)
	hasInfo = len(sis) > 0 && sis[0].Name != ""
	return
}

// VerifC12CreateWithConflict: a transaction creates store s2 and also changes an item of
// s1 that a concurrent transaction changes too; all segment interleavings. If the creator
// does not commit (conflict, retry, failure), s2 must not exist afterwards; if it commits,
// s2 exists with its item.
func VerifC12CreateWithConflict() {
	ctx := context.Background()
	w, _ := vfSetupConcurrent(false)
	a := &vfTxn{id: 1, tag: "1", kind: txCreateAndUpdate, ownKey: 1}
	b := &vfTxn{id: 2, tag: "2", kind: txRMW}
	vfRunSchedule(ctx, w, []*vfTxn{a, b}, zzvf.Choose("commit-phases-together", 2) == 1)
	vfReaderCaches(w)
	listed, hasInfo := vfStoreListed(w, "s2")
	if a.ok {
		zzvf.Assert(listed == 1 && hasInfo, "committed-creation-exists")
		got, n, err := w.dump("s2")
		zzvf.Assert(err == nil && n == 1 && vfSameItems(got, []vfKV{{1, "created1"}}), "created-store-holds-its-item")
		zzvf.Reach("c12-creator-committed")
	} else {
		zzvf.Assert(listed == 0 && !hasInfo, "store-of-failed-creator-does-not-exist")
		zzvf.Reach("c12-creator-failed")
	}
	zzvf.Reach("c12-conflict-end")
}

// VerifC12SameName: two transactions create a store of the same name and add different
// keys; all segment interleavings. Afterwards the name is listed at most once; it exists
// exactly when a transaction that used it committed, and then holds exactly the items of
// the committed transactions.
func VerifC12SameName() {
	ctx := context.Background()
	w, _ := vfSetupConcurrent(false)
	a := &vfTxn{id: 1, tag: "1", kind: txCreateOnly, ownKey: 1}
	b := &vfTxn{id: 2, tag: "2", kind: txCreateOnly, ownKey: 2}
	vfRunSchedule(ctx, w, []*vfTxn{a, b}, zzvf.Choose("commit-phases-together", 2) == 1)
	vfReaderCaches(w)
	listed, hasInfo := vfStoreListed(w, "s2")
	zzvf.Assert(listed <= 1, "store-name-listed-at-most-once")
	var want []vfKV
	if a.ok {
		want = append(want, vfKV{1, "created1"})
	}
	if b.ok {
		want = append(want, vfKV{2, "created2"})
	}
	if len(want) > 0 {
		zzvf.Assert(listed == 1 && hasInfo, "store-of-committed-transaction-exists")
		if listed == 1 && hasInfo {
			got, n, err := w.dump("s2")
			zzvf.Assert(err == nil, "store-readable")
			zzvf.Assert(n == int64(len(got)), "count-equals-scan")
			if !zzvf.Symbolic() {
				zzvf.Observe("s2 got", got)
				zzvf.Observe("s2 want", want)
				zzvf.Observe("committed", []bool{a.ok, b.ok})
			}
			zzvf.Assert(vfSameItems(got, want), "store-holds-the-committed-items")
		}
		zzvf.Reach("c12-samename-some-committed")
	} else {
		zzvf.Assert(listed == 0 && !hasInfo, "store-without-committed-creator-does-not-exist")
	}
	zzvf.Reach("c12-samename-end")
}

// VerifC12CreatorRollsBack: the transaction that created the store rolls back; another
// transaction that asked for the same store name (and found it already there) adds an item
// and commits. All segment interleavings. A store that a committed transaction wrote to must
// exist and hold that item; if nobody committed, it must not exist.
func VerifC12CreatorRollsBack() {
	ctx := context.Background()
	w, _ := vfSetupConcurrent(false)
	a := &vfTxn{id: 1, tag: "1", kind: txCreateThenRollback, ownKey: 1}
	b := &vfTxn{id: 2, tag: "2", kind: txCreateOnly, ownKey: 2}
	vfRunSchedule(ctx, w, []*vfTxn{a, b}, true)
	vfReaderCaches(w)
	listed, hasInfo := vfStoreListed(w, "s2")
	zzvf.Assert(listed <= 1, "store-name-listed-at-most-once")
	if b.ok {
		// KF-C12-1: the creator's rollback removes the store together with what the other
		// transaction committed into it
		zzvf.Known("KF-C12-1", true)
		zzvf.Assert(listed == 1 && hasInfo, "store-of-committed-transaction-exists")
		if listed == 1 && hasInfo {
			got, n, err := w.dump("s2")
			zzvf.Assert(err == nil && n == int64(len(got)), "store-readable")
			zzvf.Assert(vfSameItems(got, []vfKV{{2, "created2"}}), "store-holds-the-committed-items")
		}
		zzvf.Reach("c12-rollback-other-committed")
	} else {
		zzvf.Assert(listed == 0 && !hasInfo, "store-without-committed-creator-does-not-exist")
	}
	zzvf.Reach("c12-rollback-end")
}
