//go:build verif

package common

import (
	"context"

	"github.com/sharedcode/sop"
	"github.com/sharedcode/sop/zzvf"
)

// VerifKitSmoke: create a store, add three items, commit, read back.
func VerifKitSmoke() {
	ctx := context.Background()
	w := vfNewWorld()
	t := w.newTx(sop.ForWriting)
	zzvf.Assert(t.Begin(ctx) == nil, "begin")
	b3, err := NewBtree[int, string](ctx, vfStoreOptions("s1", 4, true), t, nil)
	zzvf.Assert(err == nil, "newbtree")
	k := zzvf.Int("key")
	zzvf.Assume(k > 20)
	for _, kv := range []vfKV{{10, "a"}, {20, "b"}, {k, "c"}} {
		ok, err := b3.Add(ctx, kv.k, kv.v)
		zzvf.Assert(ok && err == nil, "add")
	}
	zzvf.Assert(t.Commit(ctx) == nil, "commit")
	items, count, err := w.dump("s1")
	zzvf.Assert(err == nil, "dump")
	zzvf.Assert(count == 3, "count")
	zzvf.Assert(vfSameItems(items, []vfKV{{10, "a"}, {20, "b"}, {k, "c"}}), "contents")
	zzvf.Reach("smoke-end")
}
