//go:build verif

package common

import (
	"context"
	"time"

	"github.com/sharedcode/sop"
	"github.com/sharedcode/sop/zzvf"
)

var vfCrashProgs = []int{progUpdate, progAddOne, progRemoveMany, progNewStore, progTwoStoresMixed}

// vfCrashCommit runs a program in a writer whose process dies at back-end call number
// crashAt (a solver variable) during Commit, then restarts the process (caches and
// maintenance state gone; stores, registry, blobs and logs stay).
type vfCrash struct {
	tid        sop.UUID
	prevSite   string // back-end call completed just before the crash
	site       string // back-end call at which the process died (not performed)
	lastLogged int    // last commit step written to the transaction log (-1: none)
	hasPrio    bool   // the priority log of the transaction exists
}

// knownRegions marks the crash positions covered by recorded findings.
func (c vfCrash) knownRegions() {
	// KF-C08-1: died after StoreRepository.Update (count delta applied) and before the next
	// log record: recovery undoes store info only when a later step was logged
	zzvf.Known("KF-C08-1", c.lastLogged == commitStoreInfo && c.prevSite == "stores.Update")
	// KF-C08-2: died after the phase-2 registry flip and the removal of the priority log,
	// before deleteObsoleteEntries was logged: recovery treats the committed transaction as
	// unfinished and rolls parts of it back
	zzvf.Known("KF-C08-2", c.lastLogged == finalizeCommit && c.prevSite == "priolog.Remove")
	zzvf.Known("KF-C09-2", c.lastLogged == finalizeCommit && c.prevSite == "priolog.Remove")
}

func vfCrashCommit() (*vfScenario, vfCrash) {
	ctx := context.Background()
	vfInstallClock()
	s := vfCommitted(vfCrashProgs[zzvf.Choose("program", len(vfCrashProgs))])
	w := s.w
	t := w.newTx(sop.ForWriting)
	zzvf.Assert(t.Begin(ctx) == nil, "begin")
	zzvf.Assert(s.run(ctx, t), "program-operations-succeed")
	w.crashAt = zzvf.Int("crashAt")
	zzvf.Assume(w.crashAt >= 1)
	zzvf.Assume(w.crashAt <= 90)
	w.armed = true
	crashed := zzvf.CatchCrash(func() { t.Commit(ctx) })
	w.armed = false
	zzvf.Assume(crashed) // positions beyond the last call of the commit are not crash points
	if !zzvf.Symbolic() {
		zzvf.Observe("back-end calls before the crash", w.sites)
	}
	c := w.crashInfo(t.GetID())
	w.crashAt = 0
	w.restart()
	return s, c
}

func (w *vfWorld) crashInfo(tid sop.UUID) vfCrash {
	c := vfCrash{tid: tid, lastLogged: -1}
	if n := len(w.sites); n > 0 {
		c.site = w.sites[n-1]
		if n > 1 {
			c.prevSite = w.sites[n-2]
		}
	}
	if l := w.tlog.logs[c.tid]; len(l) > 0 {
		c.lastLogged = l[len(l)-1]
	}
	_, c.hasPrio = w.tlog.prio[c.tid]
	return c
}

// maintain runs the maintenance pass (what Begin is documented to trigger) on a
// transaction that has a store open.
func (w *vfWorld) maintain() {
	ctx := context.Background()
	t := w.newTx(sop.ForWriting)
	if t.Begin(ctx) != nil {
		return
	}
	if _, err := OpenBtree[int, string](ctx, "s1", t, nil); err != nil {
		t.Rollback(ctx)
		return
	}
	t.GetPhasedTransaction().(*Transaction).onIdle(ctx)
	t.Rollback(ctx)
}

// publicTraffic runs a few ordinary transactions through the public API only.
func (w *vfWorld) publicTraffic(n int) {
	ctx := context.Background()
	for i := 0; i < n; i++ {
		t := w.newTx(sop.ForWriting)
		if t.Begin(ctx) != nil {
			continue
		}
		if b3, err := OpenBtree[int, string](ctx, "s1", t, nil); err == nil {
			b3.Find(ctx, 40, false)
		}
		t.Commit(ctx)
	}
}

func vfAdvance(d time.Duration) { zzvf.Advance(int64(d)) }

// allOrNothing: the stores read either as before the crashed transaction or as after it,
// as a whole; count equals scan.
func (s *vfScenario) allOrNothing(tag string) {
	a1, a2, has2 := s.after()
	got1, n1, err := s.w.dump("s1")
	zzvf.Assert(err == nil, tag+": s1-readable")
	if err != nil {
		return
	}
	zzvf.Assert(n1 == int64(len(got1)), tag+": s1-count-equals-scan")
	isBefore := vfSameItems(got1, s.before1)
	isAfter := vfSameItems(got1, a1)
	var got2 []vfKV
	exists2 := false
	sis, _ := s.w.stores.Get(context.Background(), "s2")
	if len(sis) > 0 && sis[0].Name != "" {
		exists2 = true
		var n2 int64
		got2, n2, err = s.w.dump("s2")
		zzvf.Assert(err == nil, tag+": s2-readable")
		if err != nil {
			return
		}
		zzvf.Assert(n2 == int64(len(got2)), tag+": s2-count-equals-scan")
	}
	if s.has2 {
		isBefore = zzvf.And(isBefore, exists2 && vfSameItems(got2, s.before2))
	} else {
		// a store the crashed transaction created may linger empty until it is cleaned up
		isBefore = zzvf.And(isBefore, !exists2 || len(got2) == 0)
	}
	if has2 {
		isAfter = zzvf.And(isAfter, exists2 && vfSameItems(got2, a2))
	}
	if !zzvf.Symbolic() {
		zzvf.Observe(tag+" s1", got1)
		zzvf.Observe(tag+" s2", got2)
	}
	zzvf.Assert(zzvf.Or(isBefore, isAfter), tag+": all-or-nothing")
}

// writable: a new writer changes an item the crashed transaction touched, and commits.
func (s *vfScenario) writable(tag string) {
	ctx := context.Background()
	t := s.w.newTx(sop.ForWriting)
	zzvf.Assert(t.Begin(ctx) == nil, tag+": begin")
	b3, err := OpenBtree[int, string](ctx, "s1", t, nil)
	zzvf.Assert(err == nil, tag+": open")
	if err != nil {
		return
	}
	ok, err := b3.Upsert(ctx, 20, "after-recovery")
	zzvf.Assert(ok && err == nil, tag+": upsert")
	ok, err = b3.Upsert(ctx, 77, "after-recovery")
	zzvf.Assert(ok && err == nil, tag+": upsert-new")
	zzvf.Assert(t.Commit(ctx) == nil, tag+": new-writer-commits")
	got, n, err := s.w.dump("s1")
	zzvf.Assert(err == nil && n == int64(len(got)), tag+": readable-after-new-writer")
	v20, _ := vfValueOf(got, 20)
	v77, _ := vfValueOf(got, 77)
	zzvf.Assert(v20 == "after-recovery" && v77 == "after-recovery", tag+": new-writer-changes-stored")
}

// unblocked: a new writer changes the items the crashed transaction touched and commits;
// its changes are stored.
func (s *vfScenario) unblocked(tag string) {
	ctx := context.Background()
	t := s.w.newTx(sop.ForWriting)
	zzvf.Assert(t.Begin(ctx) == nil, tag+": begin")
	b3, err := OpenBtree[int, string](ctx, "s1", t, nil)
	zzvf.Assert(err == nil, tag+": open")
	if err != nil {
		return
	}
	for _, k := range []int{10, 20, 30, 50, 77} {
		ok, err := b3.Upsert(ctx, k, "after-recovery")
		zzvf.Assert(ok && err == nil, tag+": upsert")
	}
	zzvf.Assert(t.Commit(ctx) == nil, tag+": writer-on-the-same-items-commits")
	got, _, err := s.w.dump("s1")
	zzvf.Assert(err == nil, tag+": readable-after-new-writer")
	for _, k := range []int{10, 20, 30, 50, 77} {
		v, _ := vfValueOf(got, k)
		zzvf.Assert(v == "after-recovery", tag+": new-writer-changes-stored")
	}
}

// VerifC08Maintained: crash at any back-end call of Commit; restart; time passes; the
// maintenance pass runs (twice: priority logs are due after 5 minutes, transaction logs
// after an hour). Then: all-or-nothing, writable, nothing dangling.
func VerifC08Maintained() {
	s, c := vfCrashCommit()
	c.knownRegions()
	vfAdvance(6 * time.Minute)
	s.w.maintain()
	vfAdvance(5 * time.Hour)
	s.w.maintain()
	s.allOrNothing("after-full-recovery")
	s.w.restart()
	s.allOrNothing("after-full-recovery-cold-caches")
	s.writable("after-full-recovery")
	au := s.w.audit()
	zzvf.Assert(au.dangling == 0, "no-dangling-node")
	zzvf.Reach("c08-maintained-end")
}

// VerifC08Public: as above, but recovery is left to what ordinary transactions started
// through the public API do (Begin calls the maintenance entry point).
func VerifC08Public() {
	s, c := vfCrashCommit()
	c.knownRegions()
	// KF-C08-3 (root cause KF-C09-1): Begin's maintenance entry point does nothing (no store
	// is open yet), so whatever the crash left behind is never undone
	zzvf.Known("KF-C08-3", c.lastLogged >= 0 || c.hasPrio)
	s.allOrNothing("right-after-restart")
	vfAdvance(6 * time.Minute)
	s.w.publicTraffic(2)
	s.allOrNothing("after-5-minutes")
	vfAdvance(5 * time.Hour)
	s.w.publicTraffic(2)
	s.allOrNothing("after-hours")
	s.writable("after-hours")
	zzvf.Reach("c08-public-end")
}

// VerifC09LogsRemoved: after the documented ages have passed and maintenance has run, the
// crashed transaction's logs are gone, nothing it staged is left (registry reservations,
// blobs), and a writer on the same items commits.
func VerifC09LogsRemoved() {
	s, c := vfCrashCommit()
	c.knownRegions()
	tid := c.tid
	w := s.w
	// first pass shortly after the restart: the logs may still be too young
	young := zzvf.Int64("firstPassAfterMs")
	zzvf.Assume(young >= 0)
	zzvf.Assume(young <= int64(50*time.Minute/time.Millisecond))
	zzvf.Advance(young * int64(time.Millisecond))
	w.maintain()
	// later passes, each after more than the 4 hour polling interval
	for i := 0; i < 2; i++ {
		vfAdvance(5 * time.Hour)
		w.maintain()
	}
	_, hasLog := w.tlog.logs[tid]
	_, hasPrio := w.tlog.prio[tid]
	zzvf.Assert(!hasLog, "transaction-log-of-crashed-writer-removed")
	zzvf.Assert(!hasPrio, "priority-log-of-crashed-writer-removed")
	zzvf.Assert(len(w.tlog.logs) == 0 && len(w.tlog.prio) == 0, "no-log-left")
	// what the crashed writer staged no longer blocks a writer on the same items (all-or-
	// nothing and the count are C08's subject and not asserted here)
	s.unblocked("after-recovery")
	zzvf.Reach("c09-end")
}

// VerifC09Public: the same expectation with recovery left to the public API.
func VerifC09Public() {
	s, c := vfCrashCommit()
	c.knownRegions()
	tid := c.tid
	w := s.w
	zzvf.Known("KF-C09-1", c.lastLogged >= 0 || c.hasPrio)
	vfAdvance(10 * time.Minute)
	w.publicTraffic(2)
	vfAdvance(5 * time.Hour)
	w.publicTraffic(2)
	vfAdvance(5 * time.Hour)
	w.publicTraffic(2)
	_, hasLog := w.tlog.logs[tid]
	_, hasPrio := w.tlog.prio[tid]
	zzvf.Assert(!hasLog, "transaction-log-of-crashed-writer-removed")
	zzvf.Assert(!hasPrio, "priority-log-of-crashed-writer-removed")
	s.unblocked("after-hours")
	zzvf.Reach("c09-public-end")
}

// VerifC08EarlierCommitIntact: two writers open a still empty store; the first commits its
// item (creating the root); the second, which staged a root of its own, dies at any back-end
// call of its Commit. After restart and recovery the first writer's item is intact, the
// second writer's item is there or not, count equals scan, and the store is writable.
func VerifC08EarlierCommitIntact() {
	ctx := context.Background()
	vfInstallClock()
	w := vfNewWorld()
	t0 := w.newTx(sop.ForWriting)
	t0.Begin(ctx)
	NewBtree[int, string](ctx, vfStoreOptions("s1", 2+2*zzvf.Choose("slotLength", 2), true), t0, nil)
	zzvf.Assert(t0.Commit(ctx) == nil, "create-empty-store")
	b := w.newTx(sop.ForWriting)
	b.Begin(ctx)
	bb, _ := OpenBtree[int, string](ctx, "s1", b, nil)
	bb.Add(ctx, 2, "second")
	a := w.newTx(sop.ForWriting)
	a.Begin(ctx)
	ab, _ := OpenBtree[int, string](ctx, "s1", a, nil)
	ab.Add(ctx, 1, "first")
	zzvf.Assert(a.Commit(ctx) == nil, "first-writer-commits")
	w.crashAt = zzvf.Int("crashAt")
	zzvf.Assume(w.crashAt >= 1)
	zzvf.Assume(w.crashAt <= 90)
	w.armed = true
	crashed := zzvf.CatchCrash(func() { b.Commit(ctx) })
	w.armed = false
	zzvf.Assume(crashed)
	if !zzvf.Symbolic() {
		zzvf.Observe("back-end calls before the crash", w.sites)
	}
	c := w.crashInfo(b.GetID())
	c.knownRegions()
	w.crashAt = 0
	w.restart()
	vfAdvance(6 * time.Minute)
	w.maintain()
	vfAdvance(5 * time.Hour)
	w.maintain()
	w.restart()
	got, n, err := w.dump("s1")
	zzvf.Assert(err == nil, "readable")
	if !zzvf.Symbolic() {
		zzvf.Observe("s1", got)
	}
	zzvf.Assert(n == int64(len(got)), "count-equals-scan")
	v1, has1 := vfValueOf(got, 1)
	zzvf.Assert(has1 && v1 == "first", "earlier-commit-intact")
	only1 := vfSameItems(got, []vfKV{{1, "first"}})
	both := vfSameItems(got, []vfKV{{1, "first"}, {2, "second"}})
	zzvf.Assert(zzvf.Or(only1, both), "all-or-nothing")
	s := &vfScenario{w: w}
	s.unblocked("after-recovery")
	zzvf.Reach("c08-earlier-end")
}
