//go:build verif

package common

import (
	"context"

	"github.com/sharedcode/sop"
	"github.com/sharedcode/sop/zzvf"
)

// vfHistory runs a short history: the program (with one injected failure position, or none,
// or an explicit rollback), then a second, fault-free transaction that applies the program
// if it is not yet applied, then a third one that removes a key. It returns the scenario
// and the expected final contents.
func vfHistory() (s *vfScenario, cur1, cur2 []vfKV, has2 bool, cleanFirstOutcome bool, firstErr error) {
	ctx := context.Background()
	prog := zzvf.Choose("program", progCount)
	outcome := zzvf.Choose("first-outcome", 3) // 0 commit (maybe faulted), 1 rollback, 2 commit without faults
	var err error
	switch outcome {
	case 0:
		s, err = vfFaultCommit(prog)
		cleanFirstOutcome = false
	case 1:
		s = vfCommitted(prog)
		t := s.w.newTx(sop.ForWriting)
		t.Begin(ctx)
		zzvf.Assert(s.run(ctx, t), "program-operations-succeed")
		err = t.Rollback(ctx)
		zzvf.Assert(err == nil, "rollback-ok")
		err = vfErrInjected // "not applied"
		cleanFirstOutcome = true
	default:
		s = vfCommitted(prog)
		t := s.w.newTx(sop.ForWriting)
		t.Begin(ctx)
		zzvf.Assert(s.run(ctx, t), "program-operations-succeed")
		err = t.Commit(ctx)
		zzvf.Assert(err == nil, "commit-ok")
		cleanFirstOutcome = true
	}
	cur1, cur2, has2 = s.before1, s.before2, s.has2
	if err == nil {
		cur1, cur2, has2 = s.after()
	}
	firstErr = err
	return
}

// VerifC10NoDanglingReferences: after the first transaction's outcome (commit, commit with
// an injected failure at any position, rollback) every node reachable from a store root
// resolves through the registry to a stored blob, and a fresh reader can scan every store.
func VerifC10NoDanglingReferences() {
	s, cur1, cur2, has2, _, _ := vfHistory()
	au := s.w.audit()
	zzvf.Assert(au.dangling == 0, "every-reachable-node-resolves")
	s.expectStores("readable-after-history", cur1, cur2, has2)
	zzvf.Reach("c10-end")
}

// VerifC11NoOrphans: after a crash-free history whose transactions finished (committed,
// rolled back, or failed on an injected error that did not hit the failed transaction's own
// clean-up), storage holds only what some store references, and no log remains.
func VerifC11NoOrphans() {
	s, _, _, _, clean, firstErr := vfHistory()
	if !clean {
		// a failure that hits the post-commit clean-up (the commit still succeeds) leaves the
		// obsolete entries to later recovery (C09): that clean-up has not finished, out of scope
		zzvf.Assume(s.w.faultAt == 0 || firstErr != nil)
		// KF-C07-1 (same root cause): a failure inside a node commit step is not undone
		zzvf.Known("KF-C11-1", vfFaultInsideNodeStep(s.w))
	}
	au := s.w.audit()
	regs, blobs, logs := s.w.orphans(au)
	zzvf.Assert(regs == 0, "no-unreachable-registry-entry")
	zzvf.Assert(blobs == 0, "no-unreferenced-blob")
	zzvf.Assert(logs == 0, "no-transaction-or-priority-log-left")
	zzvf.Reach("c11-end")
}

// VerifC06CountEqualsItems: after any of those histories plus a further committed
// transaction, the count a new transaction reports equals the number of scanned items.
func VerifC06CountEqualsItems() {
	ctx := context.Background()
	s, cur1, cur2, has2, _, _ := vfHistory()
	s.expectStores("after-first-transaction", cur1, cur2, has2)
	// a second writer: add one key and remove one existing key of s1
	t := s.w.newTx(sop.ForWriting)
	zzvf.Assert(t.Begin(ctx) == nil, "second-begin")
	b, err := OpenBtree[int, string](ctx, "s1", t, nil)
	zzvf.Assert(err == nil, "second-open")
	if err != nil {
		return
	}
	// add a key (it may already be there if the first transaction's symbolic key equals it),
	// remove a key that may be missing, re-add an existing key: none may disturb the count
	b.Add(ctx, 35, "second")
	b.Remove(ctx, 77)
	b.Add(ctx, 20, "dup")
	b.Remove(ctx, 10)
	cerr := t.Commit(ctx)
	// same root cause as KF-C07-1: after a failure inside a node commit step of the first
	// transaction a later writer can be blocked by the reservation it left behind
	zzvf.Known("KF-C06-1", vfFaultInsideNodeStep(s.w))
	zzvf.Assert(cerr == nil, "second-commit")
	got, n, err := s.w.dump("s1")
	zzvf.Assert(err == nil, "final-readable")
	zzvf.Assert(n == int64(len(got)), "count-equals-number-of-scanned-items")
	zzvf.Reach("c06-end")
}

// vfFaultInsideNodeStep: the injected failure hit a registry / blob-store write of a node
// commit step, or the transaction-log write that records commitUpdatedNodes right after it.
func vfFaultInsideNodeStep(w *vfWorld) bool {
	if !w.faulted {
		return false
	}
	isWrite := func(site string) bool {
		return site == "registry.UpdateNoLocks" || site == "registry.Add" || site == "registry.Update" || site == "blobs.Add" || site == "blobs.Update"
	}
	prev := ""
	if w.faultIndex > 0 && w.faultIndex < len(w.sites) {
		prev = w.sites[w.faultIndex-1]
	}
	return isWrite(w.faultSite) || (w.faultSite == "tlog.Add" && isWrite(prev))
}
