//go:build verif

package common

import (
	"context"
	"time"

	"github.com/sharedcode/sop"
	"github.com/sharedcode/sop/btree"
	"github.com/sharedcode/sop/zzvf"
)

var vfModes = []sop.TransactionMode{sop.ForWriting, sop.ForReading, sop.NoCheck}

// lifecycle model states
const (
	lcNew = iota
	lcBegun
	lcPhase1
	lcCommitted
	lcEnded // rolled back or failed
)

const (
	mAdd = iota
	mAddIfNotExist
	mUpsert
	mUpdate
	mUpdateKey
	mUpdateCurrentValue
	mUpdateCurrentItem
	mUpdateCurrentKey
	mRemove
	mRemoveCurrentItem
	mCount
)

// vfMutate runs mutator m; keys: 60 is new, 20 exists (cursor is put on 20 first where the
// mutator works on the current item). It returns the mutator's result and what the store
// would read like if the change is committed.
func vfMutate(ctx context.Context, b3 btree.BtreeInterface[int, string], m int, base []vfKV) (ok bool, err error, after []vfKV) {
	repl := func(v string) []vfKV {
		out := append([]vfKV{}, base...)
		for i := range out {
			if out[i].k == 20 {
				out[i].v = v
			}
		}
		return out
	}
	del := func() []vfKV {
		var out []vfKV
		for _, x := range base {
			if x.k != 20 {
				out = append(out, x)
			}
		}
		return out
	}
	switch m {
	case mAdd:
		ok, err = b3.Add(ctx, 60, "m")
		after = vfSortKV(append(append([]vfKV{}, base...), vfKV{60, "m"}))
	case mAddIfNotExist:
		ok, err = b3.AddIfNotExist(ctx, 60, "m")
		after = vfSortKV(append(append([]vfKV{}, base...), vfKV{60, "m"}))
	case mUpsert:
		ok, err = b3.Upsert(ctx, 20, "m")
		after = repl("m")
	case mUpdate:
		ok, err = b3.Update(ctx, 20, "m")
		after = repl("m")
	case mUpdateKey:
		ok, err = b3.UpdateKey(ctx, 20)
		after = base
	case mUpdateCurrentValue:
		b3.Find(ctx, 20, false)
		ok, err = b3.UpdateCurrentValue(ctx, "m")
		after = repl("m")
	case mUpdateCurrentItem:
		b3.Find(ctx, 20, false)
		ok, err = b3.UpdateCurrentItem(ctx, 20, "m")
		after = repl("m")
	case mUpdateCurrentKey:
		b3.Find(ctx, 20, false)
		ok, err = b3.UpdateCurrentKey(ctx, 20)
		after = base
	case mRemove:
		ok, err = b3.Remove(ctx, 20)
		after = del()
	case mRemoveCurrentItem:
		b3.Find(ctx, 20, false)
		ok, err = b3.RemoveCurrentItem(ctx)
		after = del()
	}
	return
}

// VerifC14Guards: every mutator of the B-tree API, in every transaction mode, called while
// the transaction is open, after it committed and after it rolled back. A mutator succeeds
// only in an open ForWriting transaction; whatever is called, the stored data afterwards is
// the baseline unless an open ForWriting transaction made the change and then committed.
func VerifC14Guards() {
	ctx := context.Background()
	w, base := vfSetupConcurrent(true)
	w.maxTime = 200 * time.Millisecond
	mode := vfModes[zzvf.Choose("mode", len(vfModes))]
	m := zzvf.Choose("mutator", mCount)
	when := zzvf.Choose("when", 3) // 0 open, 1 after commit, 2 after rollback
	t := w.newTx(mode)
	zzvf.Assert(t.Begin(ctx) == nil, "begin")
	b3, err := OpenBtree[int, string](ctx, "s1", t, nil)
	zzvf.Assert(err == nil, "open")
	switch when {
	case 1:
		zzvf.Assert(t.Commit(ctx) == nil, "commit-of-untouched-transaction")
	case 2:
		zzvf.Assert(t.Rollback(ctx) == nil, "rollback")
	}
	ok, merr, after := vfMutate(ctx, b3, m, base)
	allowed := when == 0 && mode == sop.ForWriting
	if allowed {
		zzvf.Assert(ok && merr == nil, "mutator-works-in-open-writer")
	} else {
		zzvf.Assert(!ok, "mutator-refused-outside-open-writer")
		zzvf.Assert(merr != nil, "refused-mutator-reports-an-error")
	}
	want := base
	if when == 0 {
		cerr := t.Commit(ctx)
		if cerr == nil && mode == sop.ForWriting {
			want = after
		}
		if allowed {
			zzvf.Assert(cerr == nil, "writer-commit")
		}
	}
	vfReaderCaches(w)
	got, n, derr := w.dump("s1")
	zzvf.Assert(derr == nil && n == int64(len(got)), "readable")
	zzvf.Assert(vfSameItems(got, want), "stored-data-changed-only-by-a-committed-writer")
	zzvf.Reach("c14-guards-end")
}

// VerifC14Readers: read operations succeed only while the transaction is open.
func VerifC14Readers() {
	ctx := context.Background()
	w, _ := vfSetupConcurrent(false)
	mode := vfModes[zzvf.Choose("mode", len(vfModes))]
	when := zzvf.Choose("when", 3)
	t := w.newTx(mode)
	// before Begin no store can be opened
	_, err0 := OpenBtree[int, string](ctx, "s1", t, nil)
	zzvf.Assert(err0 != nil, "open-before-begin-refused")
	zzvf.Assert(t.Begin(ctx) == nil, "begin")
	b3, err := OpenBtree[int, string](ctx, "s1", t, nil)
	zzvf.Assert(err == nil, "open")
	b3.Find(ctx, 20, false)
	switch when {
	case 1:
		zzvf.Assert(t.Commit(ctx) == nil, "commit")
	case 2:
		zzvf.Assert(t.Rollback(ctx) == nil, "rollback")
	}
	var ok bool
	var rerr error
	switch zzvf.Choose("reader", 8) {
	case 0:
		ok, rerr = b3.Find(ctx, 30, false)
	case 1:
		ok, rerr = b3.First(ctx)
	case 2:
		ok, rerr = b3.Last(ctx)
	case 3:
		ok, rerr = b3.Next(ctx)
	case 4:
		ok, rerr = b3.Previous(ctx)
	case 5:
		_, rerr = b3.GetCurrentValue(ctx)
		ok = rerr == nil
	case 6:
		_, rerr = b3.GetCurrentItem(ctx)
		ok = rerr == nil
	case 7:
		ok, rerr = b3.FindWithID(ctx, 30, sop.NilUUID)
		ok = rerr == nil
	}
	if when == 0 {
		zzvf.Assert(rerr == nil, "reader-works-in-open-transaction")
	} else {
		zzvf.Assert(!ok && rerr != nil, "reader-refused-after-the-transaction-ended")
		_, err2 := OpenBtree[int, string](ctx, "s1", t, nil)
		zzvf.Assert(err2 != nil, "open-after-end-refused")
	}
	zzvf.Reach("c14-readers-end")
}

// lifecycle calls
const (
	cBegin = iota
	cCommit
	cRollback
	cPhase1
	cPhase2
	cMutate
	cCount
)

// VerifC14Lifecycle: every sequence of lifecycle calls (Begin, Commit, Rollback,
// Phase1Commit, Phase2Commit) and mutations, in every mode, against a small state model.
// Checked: a store can be opened / changed only while open; once a commit succeeded, Rollback
// reports an error and nothing changes the data any more; a finished transaction cannot be
// begun again; the stored data at the end is the baseline plus - only for a writer whose
// commit succeeded - the changes made before that commit.
func VerifC14Lifecycle() {
	ctx := context.Background()
	w, base := vfSetupConcurrent(false)
	w.maxTime = 200 * time.Millisecond
	mode := vfModes[zzvf.Choose("mode", len(vfModes))]
	steps := 4
	if zzvf.Thorough() {
		steps = 5
	}
	t := w.newTx(mode)
	state := lcNew
	var b3 btree.BtreeInterface[int, string]
	pending := base // what a commit would persist
	stored := base  // what must be stored now
	nextKey := 60
	for i := 0; i < steps; i++ {
		call := zzvf.Choose("call", cCount)
		switch call {
		case cBegin:
			err := t.Begin(ctx)
			if state == lcNew {
				zzvf.Assert(err == nil, "first-begin-works")
				state = lcBegun
			} else {
				zzvf.Assert(err != nil, "begin-of-a-started-or-finished-transaction-refused")
			}
		case cCommit:
			err := t.Commit(ctx)
			switch state {
			case lcNew:
				zzvf.Assert(err != nil, "commit-before-begin-refused")
			case lcBegun:
				if err == nil {
					state = lcCommitted
					if mode == sop.ForWriting {
						stored = pending
					}
				} else {
					state = lcEnded
				}
				zzvf.Assert(err == nil, "commit-of-open-transaction-works")
			case lcPhase1:
				// Commit after an explicit Phase1Commit: outcome not specified; track it
				if err == nil {
					state = lcCommitted
					if mode == sop.ForWriting {
						stored = pending
					}
				} else {
					state = lcEnded
				}
			case lcEnded:
				zzvf.Assert(err != nil, "commit-of-rolled-back-transaction-refused")
			}
		case cRollback:
			err := t.Rollback(ctx)
			switch state {
			case lcCommitted:
				zzvf.Assert(err != nil, "rollback-of-committed-transaction-refused")
			case lcBegun, lcPhase1:
				zzvf.Assert(err == nil, "rollback-of-open-transaction-works")
				state = lcEnded
			case lcNew:
				zzvf.Assert(err != nil, "rollback-before-begin-refused")
			}
		case cPhase1:
			err := t.GetPhasedTransaction().Phase1Commit(ctx)
			switch state {
			case lcNew:
				zzvf.Assert(err != nil, "phase1-before-begin-refused")
			case lcBegun:
				if err == nil {
					state = lcPhase1
				} else {
					state = lcEnded
				}
				zzvf.Assert(err == nil, "phase1-of-open-transaction-works")
			case lcPhase1:
				// a second Phase1Commit: refused or not, only its effect is checked; the
				// transaction either stays between its phases or is ended by the failure
				if err != nil && !t.HasBegun() {
					state = lcEnded
				}
			case lcEnded:
				zzvf.Assert(err != nil, "phase1-of-rolled-back-transaction-refused")
			}
		case cPhase2:
			err := t.GetPhasedTransaction().Phase2Commit(ctx)
			switch state {
			case lcNew:
				zzvf.Assert(err != nil, "phase2-before-begin-refused")
			case lcBegun:
				zzvf.Assert(err != nil, "phase2-before-phase1-refused")
			case lcPhase1:
				if err == nil {
					state = lcCommitted
					if mode == sop.ForWriting {
						stored = pending
					}
				} else {
					state = lcEnded
				}
				zzvf.Assert(err == nil, "phase2-after-phase1-works")
			case lcEnded:
				zzvf.Assert(err != nil, "phase2-of-rolled-back-transaction-refused")
			}
		case cMutate:
			if state == lcPhase1 {
				continue // changes between the phases: not specified, not generated
			}
			if b3 == nil {
				b, err := OpenBtree[int, string](ctx, "s1", t, nil)
				if state == lcBegun {
					zzvf.Assert(err == nil, "open-store-in-open-transaction")
				} else {
					zzvf.Assert(err != nil, "open-store-outside-transaction-refused")
				}
				if err != nil {
					continue
				}
				b3 = b
			}
			ok, err := b3.Add(ctx, nextKey, "m")
			if state == lcBegun && mode == sop.ForWriting {
				zzvf.Assert(ok && err == nil, "add-in-open-writer-works")
				pending = vfSortKV(append(append([]vfKV{}, pending...), vfKV{nextKey, "m"}))
				nextKey++
			} else {
				zzvf.Assert(!ok && err != nil, "add-outside-open-writer-refused")
				if state == lcBegun && !t.HasBegun() {
					state = lcEnded // the refused change rolled the non-writer transaction back
				}
			}
		}
	}
	// whatever was called, the stored data is what the model says
	if state == lcBegun || state == lcPhase1 {
		t.Rollback(ctx)
	}
	vfReaderCaches(w)
	got, n, derr := w.dump("s1")
	zzvf.Assert(derr == nil && n == int64(len(got)), "readable")
	if !zzvf.Symbolic() {
		zzvf.Observe("got", got)
		zzvf.Observe("want", stored)
	}
	zzvf.Assert(vfSameItems(got, stored), "stored-data-follows-the-lifecycle-model")
	zzvf.Reach("c14-lifecycle-end")
}
