//go:build verif

package common

import (
	"context"
	"time"

	"github.com/sharedcode/sop"
	"github.com/sharedcode/sop/btree"
	"github.com/sharedcode/sop/zzvf"
)

var vfIDa = sop.UUID{0x5a, 0xa1, 15: 1}
var vfIDb = sop.UUID{0x5a, 0xb2, 15: 2}

// vfSymHandle builds an arbitrary registry handle for logical id lid: which of the two
// physical slots is in use, which is active, version, work-in-progress timestamp and
// delete mark are solver / engine choices. Invariant kept: the active slot is in use.
func vfSymHandle(lid sop.UUID, now int64) sop.Handle {
	h := sop.Handle{LogicalID: lid}
	h.IsActiveIDB = zzvf.Bool("activeIsB")
	inactiveUsed := zzvf.Choose("inactive-slot-in-use", 2) == 1
	if h.IsActiveIDB {
		h.PhysicalIDB = vfIDb
		if inactiveUsed {
			h.PhysicalIDA = vfIDa
		}
	} else {
		h.PhysicalIDA = vfIDa
		if inactiveUsed {
			h.PhysicalIDB = vfIDb
		}
	}
	h.Version = zzvf.Int32("version")
	zzvf.Assume(h.Version >= 0)
	zzvf.Assume(h.Version < 1<<30)
	h.IsDeleted = zzvf.Bool("deleted")
	// age of the work-in-progress stamp: none, or any age except within a second of the
	// one-hour expiry boundary (the clock model ticks between the harness and the code)
	age := zzvf.Int64("wipAgeMs")
	hour := int64(time.Hour / time.Millisecond)
	zzvf.Assume(age >= -1)
	zzvf.Assume(age < 10*hour)
	zzvf.Assume(zzvf.Or(age < hour-1000, age > hour+1000))
	if zzvf.Choose("has-wip-stamp", 2) == 1 {
		h.WorkInProgressTimestamp = now - age
	}
	return h
}

func vfExpired(h sop.Handle, now int64) bool {
	hour := int64(time.Hour / time.Millisecond)
	return zzvf.And(h.WorkInProgressTimestamp > 0, h.WorkInProgressTimestamp < now-hour)
}

// VerifC37ClaimStep: from an arbitrary handle and an arbitrary reader version, the claim
// step (commitUpdatedNodes) succeeds exactly when the version matches, the node is not
// (unexpiredly) marked deleted and the inactive slot is free or its reservation has expired;
// success leaves active id and version untouched, installs a fresh inactive id with a fresh
// timestamp and a fully written blob; failure changes nothing. Then the flip and the
// rollback steps are checked from the claimed state.
func VerifC37ClaimStep() {
	ctx := context.Background()
	w := vfNewWorld()
	// a store with one node
	t0 := w.newTx(sop.ForWriting)
	t0.Begin(ctx)
	b0, _ := NewBtree[int, string](ctx, vfStoreOptions("s1", 4, true), t0, nil)
	b0.Add(ctx, 10, "a")
	b0.Add(ctx, 20, "b")
	zzvf.Assert(t0.Commit(ctx) == nil, "baseline-commit")
	sis, _ := w.stores.Get(ctx, "s1")
	lid := sis[0].RootNodeID

	t := w.newTx(sop.ForWriting)
	t.Begin(ctx)
	OpenBtree[int, string](ctx, "s1", t, nil)
	nr := t.GetPhasedTransaction().(*Transaction).btreesBackend[0].nodeRepository

	now := sop.Now().UnixMilli()
	h0 := vfSymHandle(lid, now)
	w.registry.lookup[lid] = h0
	// the active id names a completely written blob
	w.blobs.(*vfBlobs).ids[h0.GetActiveID()] = true

	vRead := zzvf.Int32("readerVersion")
	zzvf.Assume(vRead >= 0)
	node := &btree.Node[int, string]{ID: lid, Version: vRead, Count: 0}
	si := sis[0]
	nodes := []sop.Tuple[*sop.StoreInfo, []interface{}]{{First: &si, Second: []interface{}{node}}}
	blobsBefore := len(w.blobs.(*vfBlobs).ids)

	ok, handles, err := nr.commitUpdatedNodes(ctx, nodes)
	zzvf.Assert(err == nil, "claim-no-error")
	expired := vfExpired(h0, now)
	slotFree := h0.GetInActiveID().IsNil()
	want := zzvf.And(h0.Version == vRead, zzvf.And(zzvf.Or(zzvf.Not(h0.IsDeleted), expired), zzvf.Or(slotFree, expired)))
	zzvf.Assert(ok == want, "claim-succeeds-exactly-when-allowed")
	post := w.registry.lookup[lid]
	if !ok {
		zzvf.Assert(zzvf.Eq(post, h0), "failed-claim-leaves-handle-unchanged")
		zzvf.Assert(len(w.blobs.(*vfBlobs).ids) == blobsBefore, "failed-claim-writes-no-blob")
		zzvf.Reach("c37-claim-refused")
		return
	}
	zzvf.Assert(post.GetActiveID() == h0.GetActiveID(), "claim-keeps-active-id")
	zzvf.Assert(post.Version == h0.Version, "claim-keeps-version")
	zzvf.Assert(post.IsActiveIDB == h0.IsActiveIDB, "claim-keeps-active-side")
	zzvf.Assert(!post.IsDeleted, "claim-clears-stale-delete-mark")
	newID := post.GetInActiveID()
	zzvf.Assert(!newID.IsNil() && newID != h0.GetActiveID() && newID != h0.GetInActiveID(), "claim-installs-fresh-inactive-id")
	zzvf.Assert(post.WorkInProgressTimestamp >= now && post.WorkInProgressTimestamp <= now+1000, "claim-stamps-current-time")
	zzvf.Assert(w.blobs.(*vfBlobs).ids[newID], "claimed-id-names-a-written-blob")
	// a second claimant reading the same version is refused while the claim is live
	node2 := &btree.Node[int, string]{ID: lid, Version: vRead, Count: 0}
	ok2, _, err2 := nr.commitUpdatedNodes(ctx, []sop.Tuple[*sop.StoreInfo, []interface{}]{{First: &si, Second: []interface{}{node2}}})
	zzvf.Assert(err2 == nil && !ok2, "live-claim-refuses-second-claimant")
	zzvf.Assert(zzvf.Eq(w.registry.lookup[lid], post), "refused-claimant-changes-nothing")

	if zzvf.Choose("then", 2) == 0 {
		// flip (phase 2)
		fh, _ := nr.activateInactiveNodes(handles)
		zzvf.Assert(w.registry.UpdateNoLocks(ctx, true, fh) == nil, "flip-written")
		fin := w.registry.lookup[lid]
		zzvf.Assert(fin.GetActiveID() == newID, "flip-activates-the-claimed-blob")
		zzvf.Assert(fin.Version == h0.Version+1, "flip-bumps-version-by-one")
		zzvf.Assert(fin.GetInActiveID() == h0.GetActiveID(), "old-active-id-is-the-only-obsolete-id")
		// a committer that still holds the old version is now refused
		node3 := &btree.Node[int, string]{ID: lid, Version: vRead, Count: 0}
		ok3, _, _ := nr.commitUpdatedNodes(ctx, []sop.Tuple[*sop.StoreInfo, []interface{}]{{First: &si, Second: []interface{}{node3}}})
		zzvf.Assert(!ok3, "stale-version-refused-after-flip")
		zzvf.Reach("c37-flipped")
	} else {
		// rollback of the claim
		vids := convertToRegistryRequestPayload(nodes)
		zzvf.Assert(nr.rollbackUpdatedNodes(ctx, true, vids) == nil, "rollback-ok")
		back := w.registry.lookup[lid]
		zzvf.Assert(back.GetActiveID() == h0.GetActiveID() && back.Version == h0.Version && back.IsActiveIDB == h0.IsActiveIDB, "rollback-restores-active-id-and-version")
		zzvf.Assert(back.GetInActiveID().IsNil() && back.WorkInProgressTimestamp == 0, "rollback-frees-the-slot")
		zzvf.Assert(!w.blobs.(*vfBlobs).ids[newID], "rollback-removes-the-staged-blob")
		zzvf.Reach("c37-rolled-back")
	}
}
