//go:build verif

package common

import (
	"context"
	"sort"

	"github.com/sharedcode/sop"
	"github.com/sharedcode/sop/btree"
	"github.com/sharedcode/sop/cache"
	"github.com/sharedcode/sop/encoding"
	"github.com/sharedcode/sop/zzvf"
)

// A transaction program: a concrete shape of operations with symbolic keys where noted.
// model* functions give the expected contents after the program, from the contents before.
const (
	progAddOne     = iota // add one symbolic key (may split a leaf)
	progUpdate            // update the value of an existing key
	progRemove            // remove an existing key
	progMixed             // add a symbolic key, update one key, remove another
	progRemoveMany        // remove keys until a node is emptied / unlinked
	progNewStore          // create a second store and add its first items (new root)
	progTwoStores         // change two existing stores in one transaction
	progTwoStoresMixed    // two stores: the first gains an item, the second is only updated (net count delta zero)
	progCount
)

var vfBase1 = []vfKV{{10, "a"}, {20, "b"}, {30, "c"}, {40, "d"}, {50, "e"}}
var vfBase2 = []vfKV{{1, "x"}, {2, "y"}}

type vfScenario struct {
	w       *vfWorld
	slot    int
	prog    int
	k       int // symbolic key used by the adding programs
	before1 []vfKV
	before2 []vfKV
	has2    bool // store s2 exists before the program
}

func vfSortKV(a []vfKV) []vfKV {
	out := append([]vfKV{}, a...)
	sort.Slice(out, func(i, j int) bool { return out[i].k < out[j].k })
	return out
}

// vfCommitted builds the world with committed stores: s1 (5 items) and, for the programs
// that need it, s2 (2 items).
func vfCommitted(prog int) *vfScenario {
	ctx := context.Background()
	s := &vfScenario{w: vfNewWorld(), prog: prog}
	s.slot = 2 + 2*zzvf.Choose("slotLength", 2)
	t := s.w.newTx(sop.ForWriting)
	t.Begin(ctx)
	b1, _ := NewBtree[int, string](ctx, vfStoreOptions("s1", s.slot, true), t, nil)
	for _, kv := range vfBase1 {
		b1.Add(ctx, kv.k, kv.v)
	}
	s.before1 = vfBase1
	if prog == progTwoStores || prog == progTwoStoresMixed {
		b2, _ := NewBtree[int, string](ctx, vfStoreOptions("s2", s.slot, true), t, nil)
		for _, kv := range vfBase2 {
			b2.Add(ctx, kv.k, kv.v)
		}
		s.before2 = vfBase2
		s.has2 = true
	}
	if err := t.Commit(ctx); err != nil {
		panic("baseline commit failed: " + err.Error())
	}
	// cache state met by the transactions under test: warm (as left by the baseline commit),
	// L1 evicted (nodes only in L2), or a restarted process (L1 and L2 cold)
	switch zzvf.Choose("caches", 3) {
	case 1:
		cache.VerifResetGlobals()
	case 2:
		s.w.restart()
	}
	if prog == progAddOne || prog == progMixed || prog == progNewStore || prog == progTwoStores || prog == progTwoStoresMixed {
		s.k = zzvf.Int("key")
		for _, kv := range vfBase1 {
			zzvf.Assume(s.k != kv.k)
		}
		zzvf.Assume(s.k != 1)
		zzvf.Assume(s.k != 2)
	}
	return s
}

// run executes the program's operations in transaction t (begun); it returns false if an
// operation unexpectedly failed (which ends the harness with an assertion).
func (s *vfScenario) run(ctx context.Context, t sop.Transaction) bool {
	ok := true
	must := func(b bool, err error) {
		if !b || err != nil {
			ok = false
		}
	}
	open := func(name string) btree.BtreeInterface[int, string] {
		b, err := OpenBtree[int, string](ctx, name, t, nil)
		if err != nil {
			ok = false
		}
		return b
	}
	switch s.prog {
	case progAddOne:
		must(open("s1").Add(ctx, s.k, "new"))
	case progUpdate:
		must(open("s1").Update(ctx, 20, "B"))
	case progRemove:
		must(open("s1").Remove(ctx, 30))
	case progMixed:
		b := open("s1")
		must(b.Add(ctx, s.k, "new"))
		must(b.Update(ctx, 10, "A"))
		must(b.Remove(ctx, 50))
	case progRemoveMany:
		b := open("s1")
		must(b.Remove(ctx, 10))
		must(b.Remove(ctx, 20))
		must(b.Remove(ctx, 30))
	case progNewStore:
		b2, err := NewBtree[int, string](ctx, vfStoreOptions("s2", s.slot, true), t, nil)
		if err != nil {
			return false
		}
		must(b2.Add(ctx, s.k, "first"))
		must(b2.Add(ctx, 1, "x"))
	case progTwoStores:
		must(open("s1").Add(ctx, s.k, "new"))
		b2 := open("s2")
		must(b2.Update(ctx, 1, "X"))
		must(b2.Add(ctx, s.k, "new2"))
	case progTwoStoresMixed:
		must(open("s1").Add(ctx, s.k, "new"))
		must(open("s2").Update(ctx, 2, "Y"))
	}
	return ok
}

// after returns the expected contents of s1 and s2 once the program has committed.
func (s *vfScenario) after() (a1, a2 []vfKV, has2 bool) {
	a1, a2, has2 = s.before1, s.before2, s.has2
	repl := func(a []vfKV, k int, v string) []vfKV {
		out := append([]vfKV{}, a...)
		for i := range out {
			if out[i].k == k {
				out[i].v = v
			}
		}
		return out
	}
	del := func(a []vfKV, k int) []vfKV {
		var out []vfKV
		for _, x := range a {
			if x.k != k {
				out = append(out, x)
			}
		}
		return out
	}
	switch s.prog {
	case progAddOne:
		a1 = vfSortKV(append(append([]vfKV{}, a1...), vfKV{s.k, "new"}))
	case progUpdate:
		a1 = repl(a1, 20, "B")
	case progRemove:
		a1 = del(a1, 30)
	case progMixed:
		a1 = vfSortKV(append(del(repl(a1, 10, "A"), 50), vfKV{s.k, "new"}))
	case progRemoveMany:
		a1 = del(del(del(a1, 10), 20), 30)
	case progNewStore:
		a2, has2 = vfSortKV([]vfKV{{s.k, "first"}, {1, "x"}}), true
	case progTwoStores:
		a1 = vfSortKV(append(append([]vfKV{}, a1...), vfKV{s.k, "new"}))
		a2 = vfSortKV(append(repl(a2, 1, "X"), vfKV{s.k, "new2"}))
	case progTwoStoresMixed:
		a1 = vfSortKV(append(append([]vfKV{}, a1...), vfKV{s.k, "new"}))
		a2 = repl(a2, 2, "Y")
	}
	return
}

// expectStores asserts that the stores read exactly as (e1, e2); count must equal the scan.
func (s *vfScenario) expectStores(tag string, e1, e2 []vfKV, has2 bool) {
	got1, n1, err := s.w.dump("s1")
	zzvf.Assert(err == nil, tag+": s1-readable")
	if err == nil {
		zzvf.Assert(n1 == int64(len(got1)), tag+": s1-count-equals-scan")
		if !zzvf.Symbolic() {
			zzvf.Observe(tag+" s1 got", got1)
			zzvf.Observe(tag+" s1 want", e1)
		}
		zzvf.Assert(vfSameItems(got1, e1), tag+": s1-contents")
	}
	if has2 {
		got2, n2, err := s.w.dump("s2")
		zzvf.Assert(err == nil, tag+": s2-readable")
		if err == nil {
			zzvf.Assert(n2 == int64(len(got2)), tag+": s2-count-equals-scan")
			zzvf.Assert(vfSameItems(got2, e2), tag+": s2-contents")
		}
	} else {
		sis, _ := s.w.stores.Get(context.Background(), "s2")
		zzvf.Assert(len(sis) == 0 || sis[0].Name == "", tag+": s2-does-not-exist")
	}
}

// ---- storage audit (C10 / C11) ----

type vfAudit struct {
	dangling   int // reachable ids that do not resolve
	reachBlobs map[sop.UUID]bool
	reachLids  map[sop.UUID]bool
}

// audit walks every store from its root through the registry and the blob store.
func (w *vfWorld) audit() vfAudit {
	ctx := context.Background()
	armed := w.armed
	w.armed = false
	defer func() { w.armed = armed }()
	a := vfAudit{reachBlobs: map[sop.UUID]bool{}, reachLids: map[sop.UUID]bool{}}
	names, _ := w.stores.GetAll(ctx)
	for _, name := range names {
		sis, _ := w.stores.Get(ctx, name)
		if len(sis) == 0 || sis[0].Name == "" {
			continue
		}
		si := sis[0]
		if si.RootNodeID.IsNil() {
			continue
		}
		queue := []sop.UUID{si.RootNodeID}
		for len(queue) > 0 {
			lid := queue[0]
			queue = queue[1:]
			if lid.IsNil() || a.reachLids[lid] {
				continue
			}
			h, ok := w.registry.lookup[lid]
			if !ok {
				if lid == si.RootNodeID && si.Count == 0 {
					continue // an empty store's root is created lazily
				}
				a.dangling++
				continue
			}
			a.reachLids[lid] = true
			ba, _ := w.blobs.GetOne(ctx, si.BlobTable, h.GetActiveID())
			if len(ba) == 0 {
				a.dangling++
				continue
			}
			a.reachBlobs[h.GetActiveID()] = true
			var n btree.Node[int, string]
			if err := encoding.BlobMarshaler.Unmarshal(ba, &n); err != nil {
				a.dangling++
				continue
			}
			for _, c := range n.ChildrenIDs {
				queue = append(queue, c)
			}
			// values kept outside the node are blobs named by the item id
			for i := 0; i < n.Count && i < len(n.Slots); i++ {
				// (the stored node does not flag it: the item id is the blob id whenever the
				// store keeps values outside the nodes; harmless otherwise)
				a.reachBlobs[n.Slots[i].ID] = true
			}
		}
	}
	return a
}

// orphans counts registry entries and blobs that no store reaches, and leftover log entries.
func (w *vfWorld) orphans(a vfAudit) (regs, blobs, logs int) {
	for lid := range w.registry.lookup {
		if !a.reachLids[lid] {
			regs++
		}
	}
	for id := range w.blobs.(*vfBlobs).ids {
		if !a.reachBlobs[id] {
			blobs++
		}
	}
	logs = len(w.tlog.logs) + len(w.tlog.prio)
	return
}
