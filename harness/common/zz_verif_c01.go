//go:build verif

package common

import (
	"context"

	"github.com/sharedcode/sop"
	"github.com/sharedcode/sop/zzvf"
)

// vfFaultCommit runs program prog in a writer transaction whose Commit meets an injected
// failure at back-end call number faultAt (a solver variable; 0 = no failure).
// It returns the scenario, the commit error and whether the fault position was reached.
func vfFaultCommit(prog int) (*vfScenario, error) {
	ctx := context.Background()
	s := vfCommitted(prog)
	w := s.w
	t := w.newTx(sop.ForWriting)
	zzvf.Assert(t.Begin(ctx) == nil, "begin")
	okOps := s.run(ctx, t)
	zzvf.Assert(okOps, "program-operations-succeed")
	if !okOps {
		return s, nil
	}
	w.faultAt = zzvf.Int("faultAt")
	zzvf.Assume(w.faultAt >= 0)
	zzvf.Assume(w.faultAt <= 80)
	w.armed = true
	err := t.Commit(ctx)
	w.armed = false
	if !zzvf.Symbolic() {
		zzvf.Observe("back-end calls during commit", w.sites)
	}
	// the fault position must have been reached, or be "none"
	zzvf.Assume(zzvf.Or(w.faultAt == 0, w.faulted))
	return s, err
}

// VerifC01AllOrNothing: every program, every single injected failure position during
// Commit (including inside its rollback). Success => all changes visible in every store;
// error => every store reads exactly as before.
func VerifC01AllOrNothing() {
	s, err := vfFaultCommit(zzvf.Choose("program", progCount))
	a1, a2, has2 := s.after()
	if err == nil {
		s.expectStores("after-commit-success", a1, a2, has2)
		zzvf.Reach("c01-committed")
	} else {
		s.expectStores("after-commit-error", s.before1, s.before2, s.has2)
		zzvf.Reach("c01-failed")
	}
	if s.w.faultAt == 0 {
		zzvf.Assert(err == nil, "commit-succeeds-without-faults")
	}
}

// VerifC01Rollback: an explicit Rollback instead of Commit leaves everything as before.
func VerifC01Rollback() {
	ctx := context.Background()
	s := vfCommitted(zzvf.Choose("program", progCount))
	t := s.w.newTx(sop.ForWriting)
	t.Begin(ctx)
	zzvf.Assert(s.run(ctx, t), "program-operations-succeed")
	zzvf.Assert(t.Rollback(ctx) == nil, "rollback-ok")
	s.expectStores("after-rollback", s.before1, s.before2, s.has2)
	zzvf.Reach("c01-rolled-back")
}

// VerifC07NoTraceNoBlockage: after a commit that failed on an injected error, the same
// program run again at once (clock not advanced beyond what the calls themselves take,
// no fault) commits, and the stores then hold the program's result.
func VerifC07NoTraceNoBlockage() {
	ctx := context.Background()
	s, err := vfFaultCommit(zzvf.Choose("program", progCount))
	zzvf.Assume(s.w.faultAt > 0)
	if err == nil {
		// the failure hit a call whose error the commit tolerates (clean-up after the commit point)
		a1, a2, has2 := s.after()
		s.expectStores("tolerated-fault", a1, a2, has2)
		zzvf.Reach("c07-fault-tolerated")
		return
	}
	// Known finding KF-C07-1: a failure of a registry / blob-store write in the middle of a
	// node commit step (commitUpdatedNodes, commitRemovedNodes, commitAddedNodes,
	// commitNewRootNodes) is not undone by the rollback, because rollback only undoes steps
	// that completed. The region is: the injected failure hit one of those writes.
	// It also covers a failure of the transaction-log write that records commitUpdatedNodes
	// right after that step ran (the log entry is written after the step, not before).
	isWrite := func(site string) bool {
		return site == "registry.UpdateNoLocks" || site == "registry.Add" || site == "registry.Update" || site == "blobs.Add" || site == "blobs.Update"
	}
	site := s.w.faultSite
	prev := ""
	for i, x := range s.w.sites {
		if i+1 < len(s.w.sites) && i+1 == s.w.faultIndex {
			prev = x
		}
	}
	zzvf.Known("KF-C07-1", isWrite(site) || (site == "tlog.Add" && isWrite(prev)))
	s.expectStores("after-failed-commit", s.before1, s.before2, s.has2)
	au := s.w.audit()
	zzvf.Assert(au.dangling == 0, "no-dangling-reference-after-failed-commit")
	// retry without faults
	t := s.w.newTx(sop.ForWriting)
	zzvf.Assert(t.Begin(ctx) == nil, "retry-begin")
	zzvf.Assert(s.run(ctx, t), "retry-operations-succeed")
	if !zzvf.Symbolic() {
		for lid, h := range s.w.registry.lookup {
			zzvf.Observe("handle before retry", []any{lid.String()[24:], "A", h.PhysicalIDA.String()[24:], "B", h.PhysicalIDB.String()[24:], "activeB", h.IsActiveIDB, "ver", h.Version, "wip", h.WorkInProgressTimestamp, "del", h.IsDeleted})
		}
		s.w.sites, s.w.calls, s.w.faultAt, s.w.armed = nil, 0, 0, true
	}
	rerr := t.Commit(ctx)
	if !zzvf.Symbolic() {
		s.w.armed = false
		zzvf.Observe("back-end calls during retry", s.w.sites)
		for lid, h := range s.w.registry.lookup {
			zzvf.Observe("handle after retry", []any{lid.String()[24:], "A", h.PhysicalIDA.String()[24:], "B", h.PhysicalIDB.String()[24:], "activeB", h.IsActiveIDB, "ver", h.Version, "wip", h.WorkInProgressTimestamp, "del", h.IsDeleted})
		}
	}
	if rerr != nil {
		zzvf.Observe("retry-error", rerr.Error())
		zzvf.Observe("failed-commit-error", err.Error())
	}
	zzvf.Assert(rerr == nil, "retry-commits-without-waiting")
	a1, a2, has2 := s.after()
	s.expectStores("after-retry", a1, a2, has2)
	zzvf.Reach("c07-retried")
}
