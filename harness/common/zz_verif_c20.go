//go:build verif

package common

import (
	"context"

	"github.com/sharedcode/sop"
	"github.com/sharedcode/sop/cache"
	"github.com/sharedcode/sop/zzvf"
)

// vfProcess is one modelled OS process: it has its own L1 caches (node MRU, handle cache);
// the back ends and the L2 cache of the world are shared (clustered deployment).
type vfProcess struct {
	l1 map[sop.L2CacheType]*cache.L1Cache
}

// enter makes p the running process; it returns a function that switches back.
func (p *vfProcess) enter() func() {
	prev := cache.VerifSwapGlobals(p.l1)
	return func() { p.l1 = cache.VerifSwapGlobals(prev) }
}

// VerifC20TwoProcesses: a reader process warms its caches on the committed stores; a
// writer process then commits a program (update, add with possible split, mixed, removals
// that unlink a node, changes to two stores); the shared L2 cache is left alone or cleared.
// The reader process, with whatever its L1 still holds, must then read exactly the latest
// committed state, and a write it makes on top of it must commit and be stored.
func VerifC20TwoProcesses() {
	ctx := context.Background()
	progs := []int{progUpdate, progAddOne, progMixed, progRemoveMany, progTwoStoresMixed}
	// the registry keeps the running process's L1 handle cache up to date like fs.registryOnDisk
	vfL1Sync = true
	cache.VerifSwapGlobals(nil)
	s := vfCommitted(progs[zzvf.Choose("program", len(progs))])
	vfL1Sync = false
	w := s.w
	// the reader process is the one that committed the baseline: its L1 holds the handles and
	// nodes it wrote (or nothing, by the cache-state choice made in vfCommitted)
	reader, writer := &vfProcess{}, &vfProcess{}
	reader.l1 = cache.VerifSwapGlobals(nil)
	// KF-C20-1: a process whose L1 holds handles of nodes it wrote serves those nodes from its
	// L1 without asking the registry, also after another process replaced them
	zzvf.Known("KF-C20-1", len(reader.l1) > 0)

	leave := reader.enter()
	s.expectStores("reader-warm-up", s.before1, s.before2, s.has2)
	leave()

	leave = writer.enter()
	t := w.newTx(sop.ForWriting)
	zzvf.Assert(t.Begin(ctx) == nil, "writer-begin")
	zzvf.Assert(s.run(ctx, t), "writer-operations")
	zzvf.Assert(t.Commit(ctx) == nil, "writer-commit")
	leave()

	if zzvf.Choose("l2-cleared", 2) == 1 {
		w.l2.Clear(ctx)
	}

	a1, a2, has2 := s.after()
	leave = reader.enter()
	s.expectStores("reader-after-foreign-commit", a1, a2, has2)
	// the reader process now writes on top of what it sees
	t2 := w.newTx(sop.ForWriting)
	zzvf.Assert(t2.Begin(ctx) == nil, "second-writer-begin")
	b3, err := OpenBtree[int, string](ctx, "s1", t2, nil)
	zzvf.Assert(err == nil, "second-writer-open")
	if err == nil {
		ok, uerr := b3.Upsert(ctx, 40, "from-reader-process")
		zzvf.Assert(ok && uerr == nil, "second-writer-upsert")
		zzvf.Assert(t2.Commit(ctx) == nil, "second-writer-commit")
	}
	leave()

	// a third, fresh process checks the final state
	fresh := &vfProcess{}
	leave = fresh.enter()
	got, n, derr := w.dump("s1")
	leave()
	zzvf.Assert(derr == nil && n == int64(len(got)), "final-readable")
	want := append([]vfKV{}, a1...)
	for i := range want {
		if want[i].k == 40 {
			want[i].v = "from-reader-process"
		}
	}
	zzvf.Assert(vfSameItems(got, want), "final-state-is-latest-plus-second-write")
	zzvf.Reach("c20-two-processes-end")
}
