//go:build verif

package common

import (
	"context"
	"time"

	"github.com/sharedcode/sop"
	"github.com/sharedcode/sop/btree"
	"github.com/sharedcode/sop/zzvf"
)

// Concurrent transactions are interleaved at the granularity of the public two-phase API:
// each transaction is the segment sequence [operations] [Phase1Commit] [Phase2Commit]; the
// engine explores every interleaving of the segments (20 for two transactions). A
// transaction whose Phase1Commit runs while another holds the locks spins in its retry loop
// until its (short) commit time budget is used up and aborts - that is an allowed outcome.

const (
	txRMW      = iota // v := Get(20); Update(20, v+tag)
	txRMWBoth         // read 20 and 30, update both
	txAddOwn          // Add a key nobody else touches
	txAddSame         // Add key 35 (the other transaction may add it too)
	txUpsertSame      // Upsert key 35
	txRemove          // Remove key 30
	txReadBoth        // read-only: Get(20), Get(30)
	txReadRemove      // read 30, then remove it
	txAddSamePlus     // Add key 35 and two more keys (extra), restructuring the tree around 35
	txCreateAndUpdate // create store s2 with one item, and read-modify-write key 20 of s1
	txCreateOnly      // create store s2 (or open it if it exists already) and add ownKey to it
	txCreateThenRollback // create store s2, add ownKey, then Rollback instead of committing
	txKinds
)

type vfTxn struct {
	id      int
	kind    int
	t       sop.Transaction
	b3      btree.BtreeInterface[int, string]
	seg     int // next segment: 0 ops, 1 phase 1, 2 phase 2, 3 finished
	ok      bool // committed
	failed  bool
	r20     string // values read by the operations segment
	r30     string
	ownKey  int
	extra   []int
	tag     string
}

func (x *vfTxn) step(ctx context.Context, w *vfWorld) {
	switch x.seg {
	case 0:
		mode := sop.ForWriting
		if x.kind == txReadBoth {
			mode = sop.ForReading
		}
		x.t = w.newTx(mode)
		if x.t.Begin(ctx) != nil {
			x.failed, x.seg = true, 3
			return
		}
		b3, err := OpenBtree[int, string](ctx, "s1", x.t, nil)
		if err != nil {
			x.failed, x.seg = true, 3
			return
		}
		x.b3 = b3
		get := func(k int) string {
			if found, _ := b3.Find(ctx, k, false); !found {
				return "<missing>"
			}
			v, _ := b3.GetCurrentValue(ctx)
			return v
		}
		opOK := true
		switch x.kind {
		case txRMW:
			x.r20 = get(20)
			ok, err := b3.Update(ctx, 20, x.r20+x.tag)
			opOK = ok && err == nil
		case txRMWBoth:
			x.r20, x.r30 = get(20), get(30)
			ok1, e1 := b3.Update(ctx, 20, x.r20+x.tag)
			ok2, e2 := b3.Update(ctx, 30, x.r30+x.tag)
			opOK = ok1 && ok2 && e1 == nil && e2 == nil
		case txAddOwn:
			ok, err := b3.Add(ctx, x.ownKey, "own"+x.tag)
			opOK = ok && err == nil
			for _, k := range x.extra {
				ok, err := b3.Add(ctx, k, "own"+x.tag)
				opOK = opOK && ok && err == nil
			}
		case txAddSame:
			ok, err := b3.Add(ctx, 35, "same"+x.tag)
			opOK = ok && err == nil
		case txUpsertSame:
			ok, err := b3.Upsert(ctx, 35, "ups"+x.tag)
			opOK = ok && err == nil
		case txAddSamePlus:
			ok, err := b3.Add(ctx, 35, "same"+x.tag)
			opOK = ok && err == nil
			for _, k := range x.extra {
				ok, err := b3.Add(ctx, k, "extra"+x.tag)
				opOK = opOK && ok && err == nil
			}
		case txRemove:
			ok, err := b3.Remove(ctx, 30)
			opOK = ok && err == nil
		case txReadRemove:
			x.r30 = get(30)
			ok, err := b3.Remove(ctx, 30)
			opOK = ok && err == nil
		case txReadBoth:
			x.r20, x.r30 = get(20), get(30)
		case txCreateAndUpdate, txCreateOnly, txCreateThenRollback:
			b2, err := NewBtree[int, string](ctx, vfStoreOptions("s2", 4, true), x.t, nil)
			if err != nil {
				// NewBtree rolls the transaction back itself when it fails
				x.failed, x.seg = true, 3
				return
			}
			ok, err := b2.Add(ctx, x.ownKey, "created"+x.tag)
			opOK = ok && err == nil
			if x.kind == txCreateAndUpdate {
				x.r20 = get(20)
				ok, err := b3.Update(ctx, 20, x.r20+x.tag)
				opOK = opOK && ok && err == nil
			}
		}
		if !opOK {
			// the operation saw another transaction's committed change (e.g. duplicate key): abort
			x.t.Rollback(ctx)
			x.failed, x.seg = true, 3
			return
		}
		x.seg = 1
	case 1:
		if x.kind == txCreateThenRollback {
			x.t.Rollback(ctx)
			x.failed, x.seg = true, 3
			return
		}
		if err := x.t.GetPhasedTransaction().Phase1Commit(ctx); err != nil {
			x.failed, x.seg = true, 3
			return
		}
		x.seg = 2
	case 2:
		if err := x.t.GetPhasedTransaction().Phase2Commit(ctx); err != nil {
			x.failed, x.seg = true, 3
			return
		}
		x.ok, x.seg = true, 3
	}
}

// vfRunSchedule interleaves the transactions' segments in every order. atomicCommit keeps a
// transaction's two commit phases together (no other transaction runs between them).
func vfRunSchedule(ctx context.Context, w *vfWorld, txs []*vfTxn, atomicCommit bool) {
	for {
		var live []*vfTxn
		for _, x := range txs {
			if x.seg < 3 {
				live = append(live, x)
			}
		}
		if len(live) == 0 {
			return
		}
		x := live[zzvf.Choose("run-next", len(live))]
		x.step(ctx, w)
		if atomicCommit && x.seg == 2 {
			x.step(ctx, w)
		}
	}
}

func vfSetupConcurrent(slotChoice bool) (*vfWorld, []vfKV) {
	ctx := context.Background()
	w := vfNewWorld()
	w.maxTime = 100 * time.Millisecond // a blocked committer gives up after a few retries
	slot := 4
	if slotChoice {
		slot = 2 + 2*zzvf.Choose("slotLength", 2)
	}
	t := w.newTx(sop.ForWriting)
	t.Begin(ctx)
	b1, _ := NewBtree[int, string](ctx, vfStoreOptions("s1", slot, true), t, nil)
	for _, kv := range vfBase1 {
		b1.Add(ctx, kv.k, kv.v)
	}
	if err := t.Commit(ctx); err != nil {
		panic("baseline commit failed")
	}
	return w, vfBase1
}

// vfReaderCaches lets the final reader run with the caches as the writers left them or in
// a restarted process (L1 and L2 cold), so that what is checked is the stored state.
func vfReaderCaches(w *vfWorld) {
	if zzvf.Choose("final-reader-in-restarted-process", 2) == 1 {
		w.restart()
	}
}

func vfValueOf(items []vfKV, k int) (string, bool) {
	for _, kv := range items {
		if kv.k == k {
			return kv.v, true
		}
	}
	return "", false
}

// VerifC02Serializable: two writers (read-modify-write of one or two keys, blind removal)
// in every segment interleaving; whatever subset commits, the final state and the values
// the committed transactions read must be explainable by a serial order.
func VerifC02Serializable() {
	ctx := context.Background()
	w, base := vfSetupConcurrent(false)
	kinds := []int{txRMW, txRMWBoth, txRemove, txReadRemove}
	a := &vfTxn{id: 1, tag: "1", kind: kinds[zzvf.Choose("kind1", len(kinds))]}
	b := &vfTxn{id: 2, tag: "2", kind: kinds[zzvf.Choose("kind2", len(kinds))]}
	vfRunSchedule(ctx, w, []*vfTxn{a, b}, false)
	vfReaderCaches(w)
	got, n, err := w.dump("s1")
	zzvf.Assert(err == nil, "final-state-readable")
	zzvf.Assert(n == int64(len(got)), "count-equals-scan")
	// enumerate the serial orders of the committed transactions
	apply := func(state []vfKV, x *vfTxn) ([]vfKV, bool) {
		// returns the state after x, and whether x's reads match the state before it
		v20, _ := vfValueOf(state, 20)
		v30, has30 := vfValueOf(state, 30)
		out := append([]vfKV{}, state...)
		set := func(k int, v string) {
			for i := range out {
				if out[i].k == k {
					out[i].v = v
				}
			}
		}
		switch x.kind {
		case txRMW:
			if x.r20 != v20 {
				return nil, false
			}
			set(20, v20+x.tag)
		case txRMWBoth:
			if x.r20 != v20 || !has30 || x.r30 != v30 {
				return nil, false
			}
			set(20, v20+x.tag)
			set(30, v30+x.tag)
		case txRemove, txReadRemove:
			if !has30 || (x.kind == txReadRemove && x.r30 != v30) {
				return nil, false
			}
			var o2 []vfKV
			for _, kv := range out {
				if kv.k != 30 {
					o2 = append(o2, kv)
				}
			}
			out = o2
		}
		return out, true
	}
	var committed []*vfTxn
	for _, x := range []*vfTxn{a, b} {
		if x.ok {
			committed = append(committed, x)
		}
	}
	explained := false
	orders := [][]*vfTxn{committed}
	if len(committed) == 2 {
		orders = append(orders, []*vfTxn{committed[1], committed[0]})
	}
	for _, ord := range orders {
		state, good := base, true
		for _, x := range ord {
			var ok bool
			state, ok = apply(state, x)
			if !ok {
				good = false
				break
			}
		}
		if good && vfSameItems(got, state) {
			explained = true
		}
	}
	if !zzvf.Symbolic() && !explained {
		zzvf.Observe("final", got)
		zzvf.Observe("t1", []any{a.kind, a.ok, a.r20, a.r30})
		zzvf.Observe("t2", []any{b.kind, b.ok, b.r20, b.r30})
	}
	zzvf.Assert(explained, "committed-transactions-explained-by-a-serial-order")
	if len(committed) == 2 {
		zzvf.Reach("c02-both-committed")
	}
	zzvf.Reach("c02-end")
}

// VerifC02ReaderConsistency: one writer updating two keys and one read-only transaction
// reading both, every interleaving: a reader that commits must have read both keys from
// the same committed state.
func VerifC02ReaderConsistency() {
	ctx := context.Background()
	w, _ := vfSetupConcurrent(false)
	wr := &vfTxn{id: 1, tag: "1", kind: txRMWBoth}
	rd := &vfTxn{id: 2, tag: "r", kind: txReadBoth}
	vfRunSchedule(ctx, w, []*vfTxn{wr, rd}, false)
	if rd.ok {
		old := rd.r20 == "b" && rd.r30 == "c"
		newer := rd.r20 == "b1" && rd.r30 == "c1"
		zzvf.Assert(old || (newer && wr.ok), "committed-reader-saw-one-consistent-committed-state")
		zzvf.Reach("c02-reader-committed")
	}
	zzvf.Reach("c02-reader-end")
}

// VerifC04DisjointWriters: two writers adding different new keys (solver-chosen, so they
// may land in the same leaf or split it), operations interleaved in every order, commits
// one after the other: both must commit and the store must hold the union.
func VerifC04DisjointWriters() {
	ctx := context.Background()
	w, base := vfSetupConcurrent(true)
	w.maxTime = 15 * time.Minute
	k1, k2 := zzvf.Int("key1"), zzvf.Int("key2")
	zzvf.Assume(k1 != k2)
	for _, kv := range base {
		zzvf.Assume(k1 != kv.k)
		zzvf.Assume(k2 != kv.k)
	}
	a := &vfTxn{id: 1, tag: "1", kind: txAddOwn, ownKey: k1}
	b := &vfTxn{id: 2, tag: "2", kind: txAddOwn, ownKey: k2}
	vfRunSchedule(ctx, w, []*vfTxn{a, b}, true)
	zzvf.Assert(a.ok, "first-writer-commits")
	zzvf.Assert(b.ok, "second-writer-commits")
	want := vfSortKV(append(append([]vfKV{}, base...), vfKV{k1, "own1"}, vfKV{k2, "own2"}))
	vfReaderCaches(w)
	got, n, err := w.dump("s1")
	zzvf.Assert(err == nil, "final-state-readable")
	zzvf.Assert(n == int64(len(got)), "count-equals-scan")
	zzvf.Assert(vfSameItems(got, want), "store-holds-the-union")
	au := w.audit()
	zzvf.Assert(au.dangling == 0, "no-dangling-node")
	zzvf.Reach("c04-end")
}

// VerifC04EmptyStore: the same on a store that is still empty (both race for the root).
func VerifC04EmptyStore() {
	ctx := context.Background()
	w := vfNewWorld()
	t := w.newTx(sop.ForWriting)
	t.Begin(ctx)
	NewBtree[int, string](ctx, vfStoreOptions("s1", 2+2*zzvf.Choose("slotLength", 2), true), t, nil)
	zzvf.Assert(t.Commit(ctx) == nil, "create-empty-store")
	k1, k2 := zzvf.Int("key1"), zzvf.Int("key2")
	zzvf.Assume(k1 != k2)
	a := &vfTxn{id: 1, tag: "1", kind: txAddOwn, ownKey: k1}
	b := &vfTxn{id: 2, tag: "2", kind: txAddOwn, ownKey: k2}
	vfRunSchedule(ctx, w, []*vfTxn{a, b}, true)
	zzvf.Assert(a.ok && b.ok, "both-writers-commit")
	want := vfSortKV([]vfKV{{k1, "own1"}, {k2, "own2"}})
	vfReaderCaches(w)
	got, n, err := w.dump("s1")
	zzvf.Assert(err == nil, "final-state-readable")
	zzvf.Assert(n == int64(len(got)), "count-equals-scan")
	zzvf.Assert(vfSameItems(got, want), "store-holds-both-keys")
	au := w.audit()
	zzvf.Assert(au.dangling == 0, "no-dangling-node")
	zzvf.Reach("c04-empty-end")
}

// VerifC05UniqueKeys: two writers adding / upserting the same key of a unique store, every
// segment interleaving: the final ordered scan never shows two items with equal keys.
func VerifC05UniqueKeys() {
	ctx := context.Background()
	var w *vfWorld
	if zzvf.Choose("empty-store", 2) == 1 {
		w = vfNewWorld()
		w.maxTime = 100 * time.Millisecond
		t := w.newTx(sop.ForWriting)
		t.Begin(ctx)
		NewBtree[int, string](ctx, vfStoreOptions("s1", 2, true), t, nil)
		t.Commit(ctx)
	} else {
		w, _ = vfSetupConcurrent(true)
	}
	kinds := []int{txAddSame, txUpsertSame}
	a := &vfTxn{id: 1, tag: "1", kind: kinds[zzvf.Choose("kind1", 2)]}
	b := &vfTxn{id: 2, tag: "2", kind: kinds[zzvf.Choose("kind2", 2)]}
	vfRunSchedule(ctx, w, []*vfTxn{a, b}, zzvf.Choose("commit-phases-together", 2) == 1)
	vfReaderCaches(w)
	got, n, err := w.dump("s1")
	zzvf.Assert(err == nil, "final-state-readable")
	zzvf.Assert(n == int64(len(got)), "count-equals-scan")
	for i := 1; i < len(got); i++ {
		zzvf.Assert(got[i-1].k < got[i].k, "no-two-items-with-the-same-key")
	}
	if a.ok && b.ok && a.kind == txAddSame && b.kind == txAddSame {
		zzvf.Assert(false, "two-adds-of-one-key-cannot-both-commit")
	}
	zzvf.Reach("c05-end")
}

// VerifC05Restructured: the first writer adds the contested key 35 together with two
// solver-chosen keys, so its commit may split or rebalance nodes and move 35 into an inner
// node; the second writer, begun before that commit, adds 35 too and commits afterwards
// (its add is replayed on the restructured tree). No duplicate may result.
func VerifC05Restructured() {
	ctx := context.Background()
	w, base := vfSetupConcurrent(true)
	w.maxTime = 15 * time.Minute
	e1, e2 := zzvf.Int("extra1"), zzvf.Int("extra2")
	zzvf.Assume(e1 != e2)
	zzvf.Assume(e1 != 35)
	zzvf.Assume(e2 != 35)
	for _, kv := range base {
		zzvf.Assume(e1 != kv.k)
		zzvf.Assume(e2 != kv.k)
	}
	a := &vfTxn{id: 1, tag: "1", kind: txAddSamePlus, extra: []int{e1, e2}}
	b := &vfTxn{id: 2, tag: "2", kind: txAddSame}
	vfRunSchedule(ctx, w, []*vfTxn{a, b}, true)
	vfReaderCaches(w)
	got, n, err := w.dump("s1")
	zzvf.Assert(err == nil, "final-state-readable")
	zzvf.Assert(n == int64(len(got)), "count-equals-scan")
	for i := 1; i < len(got); i++ {
		zzvf.Assert(got[i-1].k < got[i].k, "no-two-items-with-the-same-key")
	}
	zzvf.Assert(!(a.ok && b.ok), "two-adds-of-one-key-cannot-both-commit")
	zzvf.Reach("c05-restructured-end")
}

// VerifC04Restructured: the first writer adds two keys (so that its commit may split or
// rebalance the leaf both writers work in), the second adds one; all three keys are solver
// variables. Both must commit, every key must be found and the scan must be ordered.
func VerifC04Restructured() {
	ctx := context.Background()
	w, base := vfSetupConcurrent(true)
	w.maxTime = 15 * time.Minute
	k1, k2, k3 := zzvf.Int("key1a"), zzvf.Int("key1b"), zzvf.Int("key2")
	zzvf.Assume(k1 < k2)
	zzvf.Assume(k3 != k1)
	zzvf.Assume(k3 != k2)
	for _, kv := range base {
		zzvf.Assume(k1 != kv.k)
		zzvf.Assume(k2 != kv.k)
		zzvf.Assume(k3 != kv.k)
	}
	a := &vfTxn{id: 1, tag: "1", kind: txAddOwn, ownKey: k1, extra: []int{k2}}
	b := &vfTxn{id: 2, tag: "2", kind: txAddOwn, ownKey: k3}
	vfRunSchedule(ctx, w, []*vfTxn{a, b}, true)
	zzvf.Assert(a.ok, "first-writer-commits")
	zzvf.Assert(b.ok, "second-writer-commits")
	want := vfSortKV(append(append([]vfKV{}, base...), vfKV{k1, "own1"}, vfKV{k2, "own1"}, vfKV{k3, "own2"}))
	w.restart()
	got, n, err := w.dump("s1")
	zzvf.Assert(err == nil, "final-state-readable")
	zzvf.Assert(n == int64(len(got)), "count-equals-scan")
	zzvf.Assert(vfSameItems(got, want), "store-holds-the-union-in-order")
	for _, k := range []int{k1, k2, k3} {
		zzvf.Assert(w.find("s1", k), "added-key-is-found")
	}
	zzvf.Reach("c04-restructured-end")
}
