//go:build verif

package common

import (
	"context"

	"github.com/sharedcode/sop"
	"github.com/sharedcode/sop/btree"
	"github.com/sharedcode/sop/zzvf"
)

// VerifC01ValuePlacements: all-or-nothing for stores whose values live outside the node
// (separate segment, actively persisted, globally cached): committed items whose values
// were already rewritten once, then one transaction that removes one item, updates another
// and adds a third, with an injected failure at any back-end call of Commit (solver
// variable) or an explicit Rollback after Phase1Commit. Success: all changes readable;
// failure: every key and every value reads exactly as before.
func VerifC01ValuePlacements() { vfValuePlacements(false) }

// VerifC11ValuePlacements: the same scenario, audited for storage that nothing references
// (node blobs, value blobs, registry entries, logs) after the transaction ended either way.
func VerifC11ValuePlacements() { vfValuePlacements(true) }

func vfValuePlacements(auditOrphans bool) {
	ctx := context.Background()
	w := vfNewWorld()
	so := sop.StoreOptions{Name: "s1", SlotLength: 4, IsUnique: true}
	placement := []string{"separate-segment", "actively-persisted", "globally-cached"}[zzvf.Choose("value-placement", 3)]
	switch placement {
	case "actively-persisted":
		so.IsValueDataActivelyPersisted = true
	case "globally-cached":
		so.IsValueDataGloballyCached = true
	}
	commit := func(f func(b btree.BtreeInterface[int, string]), create bool) {
		t := w.newTx(sop.ForWriting)
		zzvf.Assert(t.Begin(ctx) == nil, "setup-begin")
		var b btree.BtreeInterface[int, string]
		var err error
		if create {
			b, err = NewBtree[int, string](ctx, so, t, nil)
		} else {
			b, err = OpenBtree[int, string](ctx, "s1", t, nil)
		}
		zzvf.Assert(err == nil, "setup-open")
		f(b)
		zzvf.Assert(t.Commit(ctx) == nil, "setup-commit")
	}
	commit(func(b btree.BtreeInterface[int, string]) {
		for _, kv := range []vfKV{{1, "a"}, {2, "b"}, {3, "c"}, {4, "d"}} {
			b.Add(ctx, kv.k, kv.v)
		}
	}, true)
	commit(func(b btree.BtreeInterface[int, string]) {
		b.Update(ctx, 2, "B")
		b.Update(ctx, 3, "C")
	}, false)
	before := []vfKV{{1, "a"}, {2, "B"}, {3, "C"}, {4, "d"}}
	after := []vfKV{{1, "a"}, {2, "BB"}, {4, "d"}, {5, "e"}}
	if auditOrphans {
		_, blobs0, logs0 := w.orphans(w.audit())
		if !zzvf.Symbolic() {
			zzvf.Observe("orphans after the two committed set-up transactions blobs/logs", []int{blobs0, logs0})
		}
		zzvf.Assert(blobs0 == 0, "committed-history-leaves-no-unreferenced-blob ("+placement+")")
		zzvf.Assert(logs0 == 0, "committed-history-leaves-no-log")
	}
	if zzvf.Choose("caches", 2) == 1 {
		w.restart()
	}
	t := w.newTx(sop.ForWriting)
	zzvf.Assert(t.Begin(ctx) == nil, "begin")
	b, err := OpenBtree[int, string](ctx, "s1", t, nil)
	zzvf.Assert(err == nil, "open")
	ok1, e1 := b.Remove(ctx, 3)
	ok2, e2 := b.Update(ctx, 2, "BB")
	ok3, e3 := b.Add(ctx, 5, "e")
	zzvf.Assert(ok1 && ok2 && ok3 && e1 == nil && e2 == nil && e3 == nil, "operations-succeed")
	committed := false
	if zzvf.Choose("end", 2) == 0 {
		w.faultAt = zzvf.Int("faultAt")
		zzvf.Assume(w.faultAt >= 0)
		zzvf.Assume(w.faultAt <= 80)
		w.armed = true
		cerr := t.Commit(ctx)
		w.armed = false
		zzvf.Assume(zzvf.Or(w.faultAt == 0, w.faulted))
		committed = cerr == nil
		if w.faultAt == 0 {
			zzvf.Assert(cerr == nil, "commit-succeeds-without-faults")
		}
	} else {
		zzvf.Assert(t.GetPhasedTransaction().Phase1Commit(ctx) == nil, "phase1")
		zzvf.Assert(t.Rollback(ctx) == nil, "rollback-after-phase1")
	}
	if zzvf.Choose("reader-caches", 2) == 1 {
		w.restart()
	}
	if auditOrphans {
		if w.faulted && committed {
			// the failure hit clean-up after the commit point: the commit stands, and what was not
			// cleaned up is described by the transaction log that is left for recovery
			zzvf.Reach("c11-placements-end")
			return
		}
		zzvf.Known("KF-C11-1", vfFaultInsideNodeStep(w) && !committed) // failure inside a node commit step: see KF-C07-1
		// KF-C11-3: actively persisted values were written before the commit; when the very first
		// log write of Commit fails, the rollback runs before the step that cleans them is reached
		zzvf.Known("KF-C11-3", placement == "actively-persisted" && w.faulted && !committed && w.faultIndex == 0)
		// KF-C11-2 (root cause KF-C01-1, fixed in /repo): actively persisted values, transaction not committed
		zzvf.Known("KF-C11-2", placement == "actively-persisted" && !committed)
		au := w.audit()
		regs, blobs, logs := w.orphans(au)
		if !zzvf.Symbolic() {
			zzvf.Observe("orphans regs/blobs/logs", []int{regs, blobs, logs})
		}
		zzvf.Assert(au.dangling == 0, "no-dangling-node")
		zzvf.Assert(blobs == 0, "no-unreferenced-blob ("+placement+")")
		zzvf.Assert(regs == 0, "no-unreferenced-registry-entry")
		zzvf.Assert(logs == 0, "no-leftover-log")
		zzvf.Reach("c11-placements-end")
		return
	}
	// read every key on its own (a fresh reader each), the rewritten key last
	want := before
	if committed {
		want = after
	}
	tag := placement + ", rollback-after-phase1"
	if w.faultAt != 0 || committed {
		tag = placement + ", commit"
	}
	check := func(k int) {
		wv, present := vfValueOf(want, k)
		gv, found, rerr := w.read("s1", k)
		zzvf.Assert(rerr == nil, "key-and-value-readable ("+tag+")")
		if rerr == nil {
			zzvf.Assert(found == present, "key-present-exactly-when-expected")
			if found && present {
				zzvf.Assert(gv == wv, "value-as-expected")
			}
		}
	}
	for _, k := range []int{1, 3, 4, 5} {
		check(k)
	}
	// (KF-C01-1, fixed in /repo: actively persisted values, second rewrite of an item by a
	// transaction that does not commit made the committed value of key 2 unreadable; the region is
	// only honoured while the entry is open in known_findings.json)
	zzvf.Known("KF-C01-1", placement == "actively-persisted" && !committed)
	check(2)
	if committed {
		zzvf.Reach("c01-placements-committed")
	} else {
		zzvf.Reach("c01-placements-failed")
	}
}
