//go:build verif

package common

import (
	"context"

	"github.com/sharedcode/sop"
	"github.com/sharedcode/sop/zzvf"
)

// expectView asserts what a fresh reader sees: items and values first, then (after naming
// the recorded finding about early counts) the item counts.
func (s *vfScenario) expectView(tag string, e1, e2 []vfKV, has2 bool, countFinding bool) {
	got1, n1, err := s.w.dump("s1")
	zzvf.Assert(err == nil, tag+": s1-readable")
	var got2 []vfKV
	var n2 int64
	s2exists := false
	if sis, _ := s.w.stores.Get(context.Background(), "s2"); len(sis) > 0 && sis[0].Name != "" {
		s2exists = true
		var err2 error
		got2, n2, err2 = s.w.dump("s2")
		zzvf.Assert(err2 == nil, tag+": s2-readable")
	}
	if err == nil {
		zzvf.Assert(vfSameItems(got1, e1), tag+": s1-items-and-values")
	}
	if has2 {
		zzvf.Assert(s2exists, tag+": s2-exists")
		zzvf.Assert(vfSameItems(got2, e2), tag+": s2-items-and-values")
	} else {
		// a store being created by an uncommitted transaction must show no items.
		// KF-C03-2: the first root node of a new store is written and registered in phase 1
		// under the store's pre-assigned root id, so a reader that opens the store sees the
		// writer's first items before the writer's commit has finished.
		zzvf.Known("KF-C03-2", countFinding && s.prog == progNewStore)
		zzvf.Assert(len(got2) == 0, tag+": uncommitted-store-shows-no-items")
	}
	if countFinding {
		// KF-C03-1: commitStores runs in phase 1, so the count a reader gets already includes
		// the writer's uncommitted delta (and stays until the writer rolls back).
		zzvf.Known("KF-C03-1", true)
	}
	if err == nil {
		zzvf.Assert(n1 == int64(len(e1)), tag+": s1-count")
	}
	if has2 {
		zzvf.Assert(n2 == int64(len(e2)), tag+": s2-count")
	} else if s2exists {
		zzvf.Assert(n2 == 0, tag+": uncommitted-store-count-zero")
	}
}

// VerifC03NoDirtyReads: a writer runs a program and stops after Phase1Commit; a reader in
// the same process (shared caches) must see the state before the writer. Then the writer
// either finishes (reader sees the new state) or rolls back (reader sees the old state).
func VerifC03NoDirtyReads() {
	ctx := context.Background()
	s := vfCommitted(zzvf.Choose("program", progCount))
	t := s.w.newTx(sop.ForWriting)
	zzvf.Assert(t.Begin(ctx) == nil, "begin")
	zzvf.Assert(s.run(ctx, t), "program-operations-succeed")
	// in flight, before any commit phase
	s.expectView("writer-in-flight", s.before1, s.before2, s.has2, false)
	t2 := t.GetPhasedTransaction()
	zzvf.Assert(t2.Phase1Commit(ctx) == nil, "phase1-ok")
	s.expectView("writer-between-phases", s.before1, s.before2, s.has2, true)
	if zzvf.Choose("writer-outcome", 2) == 0 {
		zzvf.Assert(t2.Phase2Commit(ctx) == nil, "phase2-ok")
		a1, a2, has2 := s.after()
		s.expectView("writer-committed", a1, a2, has2, false)
		zzvf.Reach("c03-committed")
	} else {
		zzvf.Assert(t2.Rollback(ctx, nil) == nil, "rollback-ok")
		s.expectView("writer-rolled-back", s.before1, s.before2, s.has2, false)
		zzvf.Reach("c03-rolled-back")
	}
}

// VerifC03StoppedInsidePhase1: the writer is frozen at a solver-chosen back-end call inside
// Phase1Commit (it never returns); a reader must see the old items and values.
func VerifC03StoppedInsidePhase1() {
	ctx := context.Background()
	s := vfCommitted(zzvf.Choose("program", progCount))
	t := s.w.newTx(sop.ForWriting)
	t.Begin(ctx)
	zzvf.Assert(s.run(ctx, t), "program-operations-succeed")
	s.w.crashAt = zzvf.Int("stopAt")
	zzvf.Assume(s.w.crashAt >= 1)
	zzvf.Assume(s.w.crashAt <= 60)
	s.w.armed = true
	stopped := zzvf.CatchCrash(func() { t.GetPhasedTransaction().Phase1Commit(ctx) })
	s.w.armed = false
	zzvf.Assume(stopped)
	s.expectView("writer-frozen-in-phase1", s.before1, s.before2, s.has2, true)
	zzvf.Reach("c03-frozen")
}
