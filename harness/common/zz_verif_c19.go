//go:build verif

package common

import (
	"context"

	"github.com/sharedcode/sop"
	"github.com/sharedcode/sop/btree"
	"github.com/sharedcode/sop/zzvf"
)

type vfOp struct {
	kind int // 0 add, 1 update, 2 remove, 3 upsert
	k    int
	v    string
}

var vfScripts = [][]vfOp{
	{{0, 1, "a"}, {0, 2, "b"}, {1, 1, "A"}, {0, 3, "c"}, {2, 2, ""}, {1, 3, "C"}},
	{{0, 5, "e"}, {1, 5, "E"}, {2, 5, ""}, {0, 5, "again"}, {3, 6, "f"}, {3, 6, "F"}},
	{{0, 1, "a"}, {0, 2, "b"}, {0, 3, "c"}, {0, 4, "d"}, {0, 5, "e"}, {2, 3, ""}, {1, 4, "D"}},
	// the same item updated several times, in one or in several transactions
	{{0, 7, "g"}, {1, 7, "G"}, {1, 7, "GG"}, {0, 8, "h"}, {1, 8, "H"}, {1, 7, "GGG"}},
}

// VerifC19Placements: a scripted operation sequence is applied to a persisted store under
// every value-placement option and every batching of the operations into transactions; the
// store, read by a fresh transaction with warm or cold caches, must equal the same sequence
// applied to an in-memory model.
func VerifC19Placements() {
	ctx := context.Background()
	w := vfNewWorld()
	so := sop.StoreOptions{Name: "s1", SlotLength: 2 + 2*zzvf.Choose("slotLength", 2), IsUnique: true}
	switch zzvf.Choose("value-placement", 4) {
	case 0:
		so.IsValueDataInNodeSegment = true
	case 1: // separate segment
	case 2:
		so.IsValueDataActivelyPersisted = true
	case 3:
		so.IsValueDataGloballyCached = true
	}
	script := vfScripts[zzvf.Choose("script", len(vfScripts))]
	// one symbolic value, to let the solver compare the stored bytes
	sym := zzvf.ByteString("value", 2)
	model := map[int]string{}
	var t sop.Transaction
	var b3 btree.BtreeInterface[int, string]
	begin := func(create bool) bool {
		t = w.newTx(sop.ForWriting)
		if t.Begin(ctx) != nil {
			return false
		}
		var err error
		if create {
			b3, err = NewBtree[int, string](ctx, so, t, nil)
		} else {
			b3, err = OpenBtree[int, string](ctx, "s1", t, nil)
		}
		return err == nil
	}
	zzvf.Assert(begin(true), "create-store")
	for i, op := range script {
		v := op.v
		if i == 2 {
			v = sym
		}
		var ok bool
		var err error
		switch op.kind {
		case 0:
			ok, err = b3.Add(ctx, op.k, v)
			model[op.k] = v
		case 1:
			ok, err = b3.Update(ctx, op.k, v)
			model[op.k] = v
		case 2:
			ok, err = b3.Remove(ctx, op.k)
			delete(model, op.k)
		case 3:
			ok, err = b3.Upsert(ctx, op.k, v)
			model[op.k] = v
		}
		if !zzvf.Symbolic() && (!ok || err != nil) {
			zzvf.Observe("failed operation", []any{i, op.kind, op.k, ok, err})
		}
		zzvf.Assert(ok && err == nil, "operation-succeeds")
		last := i == len(script)-1
		if last || zzvf.Choose("commit-here", 2) == 1 {
			zzvf.Assert(t.Commit(ctx) == nil, "commit")
			if !last {
				zzvf.Assert(begin(false), "reopen")
			}
		}
	}
	switch zzvf.Choose("reader-caches", 3) {
	case 1:
		w.restart() // fresh process: L1 and L2 cold
	case 2:
		w.l2.Clear(ctx) // only the L2 cache cleared
	}
	got, n, err := w.dump("s1")
	zzvf.Assert(err == nil, "readable")
	var want []vfKV
	for k, v := range model {
		want = append(want, vfKV{k, v})
	}
	want = vfSortKV(want)
	zzvf.Assert(n == int64(len(want)), "count")
	zzvf.Assert(vfSameItems(got, want), "contents-equal-model")
	au := w.audit()
	zzvf.Assert(au.dangling == 0, "no-dangling-node")
	zzvf.Reach("c19-end")
}
