//go:build verif

package common

// KIT-TX: the real common.Transaction / btree / item tracker / node repository / transaction
// logger / L1 cache run over model back ends for the five storage interfaces. The models are
// the repo's own common/mocks where they suffice (store repository, blob store, L2 cache),
// plus a registry that applies batches one handle at a time and transaction / priority logs
// that can be inspected. Every back-end call is counted; the harness can make call number
// faultAt fail (an injected error) or crash the process there (zzvf.Crash), both solver
// chosen.

import (
	"context"
	"errors"
	"time"

	"github.com/sharedcode/sop"
	"github.com/sharedcode/sop/btree"
	"github.com/sharedcode/sop/cache"
	"github.com/sharedcode/sop/common/mocks"
	"github.com/sharedcode/sop/zzvf"
)

var vfErrInjected = errors.New("injected storage failure")

// vfL1Sync: worlds created while this is set have a registry model that maintains the L1
// handle cache of the running process like the file-system registry does.
var vfL1Sync bool

type vfWorld struct {
	stores   sop.StoreRepository
	registry *vfRegistry
	blobs    sop.BlobStore
	l2       sop.L2Cache
	tlog     *vfTLog

	calls    int // back-end calls so far (while armed)
	armed    bool
	faultAt  int // call number that fails (0 = none); may be symbolic
	crashAt  int // call number at which the process dies (0 = none); may be symbolic
	faulted  bool
	faultSite string
	faultIndex int // index in sites of the failed call
	sites    []string // names of the armed calls, in order (for reports)
	maxTime  time.Duration
}

func vfNewWorld() *vfWorld {
	w := &vfWorld{maxTime: 15 * time.Minute}
	w.stores = &vfStores{inner: mocks.NewMockStoreRepository(), w: w}
	w.registry = &vfRegistry{lookup: map[sop.UUID]sop.Handle{}, w: w, l1sync: vfL1Sync}
	w.blobs = &vfBlobs{inner: mocks.NewMockBlobStore(), ids: map[sop.UUID]bool{}, w: w}
	w.l2 = mocks.NewMockClient()
	w.tlog = &vfTLog{w: w, logs: map[sop.UUID][]int{}, prio: map[sop.UUID][]byte{}}
	return w
}

// hit counts one back-end call; it returns true if this call must fail.
func (w *vfWorld) hit(site string) bool {
	if !w.armed {
		return false
	}
	w.calls++
	w.sites = append(w.sites, site)
	if w.calls == w.crashAt {
		zzvf.Crash()
	}
	if w.calls == w.faultAt {
		w.faulted = true
		w.faultSite = site
		w.faultIndex = len(w.sites) - 1
		zzvf.Observe("fault-site", site)
		return true
	}
	return false
}

// newTx creates a transaction of a "process" sharing this world's caches.
func (w *vfWorld) newTx(mode sop.TransactionMode) sop.Transaction {
	t2, err := NewTwoPhaseCommitTransaction(mode, w.maxTime, w.blobs, w.stores, w.registry, w.l2, w.tlog)
	if err != nil {
		panic(err)
	}
	t, _ := sop.NewTransaction(mode, t2)
	return t
}

// restart models a process restart in standalone mode: in-process caches are gone.
func (w *vfWorld) restart() {
	w.l2 = mocks.NewMockClient()
	cache.VerifResetGlobals()
	// maintenance scheduling state of package common, as in a freshly started process
	lastOnIdleRunTime = 0
	lastPriorityOnIdleTime = 0
	priorityLogFound = false
	onStartUpFlag = true
	hourBeingProcessed = ""
}

// vfInstallClock makes sop.Now follow zzvf.Advance in native runs too (under the engine
// time.Now already reads the model clock that Advance moves).
func vfInstallClock() {
	sop.Now = func() time.Time { return time.Now().Add(time.Duration(zzvf.Advanced())) }
}

// ---- store repository ----

type vfStores struct {
	inner sop.StoreRepository
	w     *vfWorld
}

func (s *vfStores) Get(ctx context.Context, names ...string) ([]sop.StoreInfo, error) {
	return s.inner.Get(ctx, names...)
}
func (s *vfStores) GetWithTTL(ctx context.Context, ttl bool, d time.Duration, names ...string) ([]sop.StoreInfo, error) {
	return s.inner.GetWithTTL(ctx, ttl, d, names...)
}
func (s *vfStores) GetAll(ctx context.Context) ([]string, error) { return s.inner.GetAll(ctx) }
func (s *vfStores) Add(ctx context.Context, stores ...sop.StoreInfo) error {
	if s.w.hit("stores.Add") {
		return vfErrInjected
	}
	// like fs.StoreRepository.Add: a store name can be added only once
	for _, st := range stores {
		if cur, _ := s.inner.Get(ctx, st.Name); len(cur) > 0 && cur[0].Name != "" {
			return errors.New("can't add store " + st.Name + ", an existing item with such name exists")
		}
	}
	return s.inner.Add(ctx, stores...)
}
func (s *vfStores) Remove(ctx context.Context, names ...string) error {
	if s.w.hit("stores.Remove") {
		return vfErrInjected
	}
	return s.inner.Remove(ctx, names...)
}
func (s *vfStores) Update(ctx context.Context, stores []sop.StoreInfo) ([]sop.StoreInfo, error) {
	if s.w.hit("stores.Update") {
		return nil, vfErrInjected
	}
	return s.inner.Update(ctx, stores)
}
func (s *vfStores) Replicate(ctx context.Context, stores []sop.StoreInfo) error { return nil }

// ---- registry: one handle at a time ----

type vfRegistry struct {
	lookup map[sop.UUID]sop.Handle
	w      *vfWorld
	// l1sync: maintain the running process's L1 handle cache the way fs.registryOnDisk does
	// (set on Add/Update/UpdateNoLocks, delete on Remove); off by default
	l1sync bool
}

func (r *vfRegistry) cacheSet(h sop.Handle) {
	if r.l1sync {
		cache.GetGlobalL1Cache(r.w.l2).Handles.Set([]sop.KeyValuePair[sop.UUID, sop.Handle]{{Key: h.LogicalID, Value: h}})
	}
}
func (r *vfRegistry) cacheDelete(id sop.UUID) {
	if r.l1sync {
		cache.GetGlobalL1Cache(r.w.l2).Handles.Delete([]sop.UUID{id})
	}
}

func (r *vfRegistry) Get(ctx context.Context, lids []sop.RegistryPayload[sop.UUID]) ([]sop.RegistryPayload[sop.Handle], error) {
	if r.w.hit("registry.Get") {
		return nil, vfErrInjected
	}
	var out []sop.RegistryPayload[sop.Handle]
	for _, p := range lids {
		if !zzvf.Symbolic() && r.w.armed {
			var ids []string
			for _, id := range p.IDs {
				ids = append(ids, id.String()[24:])
			}
			zzvf.Observe("registry.Get", ids)
		}
		hs := make([]sop.Handle, 0, len(p.IDs))
		for _, id := range p.IDs {
			if h, ok := r.lookup[id]; ok {
				hs = append(hs, h)
			}
		}
		out = append(out, sop.RegistryPayload[sop.Handle]{RegistryTable: p.RegistryTable, BlobTable: p.BlobTable, CacheDuration: p.CacheDuration, IsCacheTTL: p.IsCacheTTL, IDs: hs})
	}
	return out, nil
}
func (r *vfRegistry) Add(ctx context.Context, hs []sop.RegistryPayload[sop.Handle]) error {
	for _, p := range hs {
		for _, h := range p.IDs {
			if r.w.hit("registry.Add") {
				return vfErrInjected
			}
			if _, ok := r.lookup[h.LogicalID]; ok {
				return errors.New("registry: handle already exists")
			}
			r.lookup[h.LogicalID] = h
			r.cacheSet(h)
		}
	}
	return nil
}
func (r *vfRegistry) Update(ctx context.Context, hs []sop.RegistryPayload[sop.Handle]) error {
	for _, p := range hs {
		for _, h := range p.IDs {
			if r.w.hit("registry.Update") {
				return vfErrInjected
			}
			r.lookup[h.LogicalID] = h
			r.cacheSet(h)
		}
	}
	return nil
}
func (r *vfRegistry) UpdateNoLocks(ctx context.Context, allOrNothing bool, hs []sop.RegistryPayload[sop.Handle]) error {
	for _, p := range hs {
		for _, h := range p.IDs {
			if r.w.hit("registry.UpdateNoLocks") {
				return vfErrInjected
			}
			r.lookup[h.LogicalID] = h
			r.cacheSet(h)
		}
	}
	return nil
}
func (r *vfRegistry) Remove(ctx context.Context, lids []sop.RegistryPayload[sop.UUID]) error {
	for _, p := range lids {
		for _, id := range p.IDs {
			if r.w.hit("registry.Remove") {
				return vfErrInjected
			}
			delete(r.lookup, id)
			r.cacheDelete(id)
		}
	}
	return nil
}
func (r *vfRegistry) Replicate(ctx context.Context, a, b, c, d []sop.RegistryPayload[sop.Handle]) error {
	return nil
}

// ---- blob store ----

type vfBlobs struct {
	inner sop.BlobStore
	ids   map[sop.UUID]bool
	w     *vfWorld
}

func (b *vfBlobs) GetOne(ctx context.Context, table string, id sop.UUID) ([]byte, error) {
	if b.w.hit("blobs.GetOne") {
		return nil, vfErrInjected
	}
	return b.inner.GetOne(ctx, table, id)
}
func (b *vfBlobs) Add(ctx context.Context, blobs []sop.BlobsPayload[sop.KeyValuePair[sop.UUID, []byte]]) error {
	for _, p := range blobs {
		for _, kv := range p.Blobs {
			if b.w.hit("blobs.Add") {
				return vfErrInjected
			}
			b.ids[kv.Key] = true
			b.inner.Add(ctx, []sop.BlobsPayload[sop.KeyValuePair[sop.UUID, []byte]]{{BlobTable: p.BlobTable, Blobs: []sop.KeyValuePair[sop.UUID, []byte]{kv}}})
		}
	}
	return nil
}
func (b *vfBlobs) Update(ctx context.Context, blobs []sop.BlobsPayload[sop.KeyValuePair[sop.UUID, []byte]]) error {
	for _, p := range blobs {
		for _, kv := range p.Blobs {
			if b.w.hit("blobs.Update") {
				return vfErrInjected
			}
			b.ids[kv.Key] = true
			b.inner.Update(ctx, []sop.BlobsPayload[sop.KeyValuePair[sop.UUID, []byte]]{{BlobTable: p.BlobTable, Blobs: []sop.KeyValuePair[sop.UUID, []byte]{kv}}})
		}
	}
	return nil
}
func (b *vfBlobs) Remove(ctx context.Context, ids []sop.BlobsPayload[sop.UUID]) error {
	for _, p := range ids {
		for _, id := range p.Blobs {
			if b.w.hit("blobs.Remove") {
				return vfErrInjected
			}
			delete(b.ids, id)
			b.inner.Remove(ctx, []sop.BlobsPayload[sop.UUID]{{BlobTable: p.BlobTable, Blobs: []sop.UUID{id}}})
		}
	}
	return nil
}

// ---- transaction log and priority log ----

type vfTLog struct {
	w     *vfWorld
	logs  map[sop.UUID][]int // commit function ids logged per transaction
	data  map[sop.UUID][]sop.KeyValuePair[int, []byte]
	stamp map[sop.UUID]int64 // time of the first entry (ms)
	prio  map[sop.UUID][]byte
	pstamp map[sop.UUID]int64
}

func (l *vfTLog) PriorityLog() sop.TransactionPriorityLog { return vfPrioLog{l} }
func (l *vfTLog) Add(ctx context.Context, tid sop.UUID, fn int, payload []byte) error {
	if l.w.hit("tlog.Add") {
		return vfErrInjected
	}
	if l.data == nil {
		l.data = map[sop.UUID][]sop.KeyValuePair[int, []byte]{}
		l.stamp = map[sop.UUID]int64{}
	}
	if _, ok := l.stamp[tid]; !ok {
		l.stamp[tid] = sop.Now().UnixMilli()
	}
	l.logs[tid] = append(l.logs[tid], fn)
	l.data[tid] = append(l.data[tid], sop.KeyValuePair[int, []byte]{Key: fn, Value: payload})
	return nil
}
func (l *vfTLog) Remove(ctx context.Context, tid sop.UUID) error {
	if l.w.hit("tlog.Remove") {
		return vfErrInjected
	}
	delete(l.logs, tid)
	delete(l.data, tid)
	delete(l.stamp, tid)
	return nil
}

// GetOne returns a transaction whose log is at least an hour old.
func (l *vfTLog) GetOne(ctx context.Context) (sop.UUID, string, []sop.KeyValuePair[int, []byte], error) {
	now := sop.Now().UnixMilli()
	for tid, ts := range l.stamp {
		if now-ts >= int64(time.Hour/time.Millisecond) {
			return tid, "hour", l.data[tid], nil
		}
	}
	return sop.NilUUID, "", nil, nil
}
func (l *vfTLog) GetOneOfHour(ctx context.Context, hour string) (sop.UUID, []sop.KeyValuePair[int, []byte], error) {
	tid, _, d, err := l.GetOne(ctx)
	return tid, d, err
}
func (l *vfTLog) NewUUID() sop.UUID { return sop.NewUUID() }

type vfPrioLog struct{ l *vfTLog }

func (p vfPrioLog) IsEnabled() bool { return true }
func (p vfPrioLog) Add(ctx context.Context, tid sop.UUID, payload []byte) error {
	if p.l.w.hit("priolog.Add") {
		return vfErrInjected
	}
	if p.l.pstamp == nil {
		p.l.pstamp = map[sop.UUID]int64{}
	}
	p.l.prio[tid] = payload
	p.l.pstamp[tid] = sop.Now().UnixMilli()
	return nil
}
func (p vfPrioLog) Remove(ctx context.Context, tid sop.UUID) error {
	if p.l.w.hit("priolog.Remove") {
		return vfErrInjected
	}
	delete(p.l.prio, tid)
	delete(p.l.pstamp, tid)
	return nil
}
func (p vfPrioLog) Get(ctx context.Context, tid sop.UUID) ([]sop.RegistryPayload[sop.Handle], error) {
	ba, ok := p.l.prio[tid]
	if !ok {
		return nil, nil
	}
	return toStruct[[]sop.RegistryPayload[sop.Handle]](ba), nil
}
func (p vfPrioLog) GetBatch(ctx context.Context, batchSize int) ([]sop.KeyValuePair[sop.UUID, []sop.RegistryPayload[sop.Handle]], error) {
	now := sop.Now().UnixMilli()
	var out []sop.KeyValuePair[sop.UUID, []sop.RegistryPayload[sop.Handle]]
	for tid, ts := range p.l.pstamp {
		if now-ts >= int64(5*time.Minute/time.Millisecond) && len(out) < batchSize {
			out = append(out, sop.KeyValuePair[sop.UUID, []sop.RegistryPayload[sop.Handle]]{Key: tid, Value: toStruct[[]sop.RegistryPayload[sop.Handle]](p.l.prio[tid])})
		}
	}
	return out, nil
}
func (p vfPrioLog) ProcessNewer(ctx context.Context, processor func(tid sop.UUID, payload []sop.RegistryPayload[sop.Handle]) error) error {
	return nil
}
func (p vfPrioLog) LogCommitChanges(ctx context.Context, stores []sop.StoreInfo, a, b, c, d []sop.RegistryPayload[sop.Handle]) error {
	return nil
}

// ---- B-tree helpers and oracles ----

type vfKV struct {
	k int
	v string
}

func vfStoreOptions(name string, slot int, unique bool) sop.StoreOptions {
	return sop.StoreOptions{Name: name, SlotLength: slot, IsUnique: unique, IsValueDataInNodeSegment: true}
}

// dump reads the whole store in a fresh read-only transaction.
func (w *vfWorld) dump(name string) (items []vfKV, count int64, err error) {
	armed := w.armed
	w.armed = false
	defer func() { w.armed = armed }()
	ctx := context.Background()
	t := w.newTx(sop.ForReading)
	if err = t.Begin(ctx); err != nil {
		return
	}
	b3, e := OpenBtree[int, string](ctx, name, t, nil)
	if e != nil {
		t.Rollback(ctx)
		return nil, 0, e
	}
	count = b3.Count()
	ok, e := b3.First(ctx)
	for ok && e == nil {
		k := b3.GetCurrentKey().Key
		v, e2 := b3.GetCurrentValue(ctx)
		if e2 != nil {
			e = e2
			break
		}
		items = append(items, vfKV{k, v})
		if len(items) > 64 {
			break
		}
		ok, e = b3.Next(ctx)
	}
	if e != nil {
		t.Rollback(ctx)
		return items, count, e
	}
	err = t.Commit(ctx)
	return
}

// read fetches key k and its value in a fresh read-only transaction.
func (w *vfWorld) read(name string, k int) (v string, found bool, err error) {
	armed := w.armed
	w.armed = false
	defer func() { w.armed = armed }()
	ctx := context.Background()
	t := w.newTx(sop.ForReading)
	if err = t.Begin(ctx); err != nil {
		return
	}
	defer t.Rollback(ctx)
	b3, e := OpenBtree[int, string](ctx, name, t, nil)
	if e != nil {
		return "", false, e
	}
	found, err = b3.Find(ctx, k, false)
	if err != nil || !found {
		return
	}
	v, err = b3.GetCurrentValue(ctx)
	return
}

// find looks key k up in a fresh read-only transaction.
func (w *vfWorld) find(name string, k int) bool {
	armed := w.armed
	w.armed = false
	defer func() { w.armed = armed }()
	ctx := context.Background()
	t := w.newTx(sop.ForReading)
	if t.Begin(ctx) != nil {
		return false
	}
	defer t.Rollback(ctx)
	b3, e := OpenBtree[int, string](ctx, name, t, nil)
	if e != nil {
		return false
	}
	ok, e := b3.Find(ctx, k, false)
	return ok && e == nil
}

func vfSameItems(a, b []vfKV) bool {
	if len(a) != len(b) {
		return false
	}
	res := true
	for i := range a {
		res = zzvf.And(res, zzvf.And(a[i].k == b[i].k, a[i].v == b[i].v))
	}
	return res
}

var _ btree.BtreeInterface[int, string]
