//go:build verif

package common

import (
	"context"
	"time"

	"github.com/sharedcode/sop"
	"github.com/sharedcode/sop/cache"
	"github.com/sharedcode/sop/zzvf"
)

// vfDeadlineCtx is a caller context with a deadline on the model clock.
type vfDeadlineCtx struct {
	context.Context
	deadline time.Time
}

func (c *vfDeadlineCtx) Deadline() (time.Time, bool) { return c.deadline, true }
func (c *vfDeadlineCtx) Err() error {
	if sop.Now().After(c.deadline) {
		return context.DeadlineExceeded
	}
	return nil
}

// vfWatchL2 wraps the L2 cache: while armed, any lock attempt made after the commit's time
// budget plus the allowed overhead has elapsed is the violation "still retrying after the
// budget" (and ends the run, which would otherwise never end).
type vfWatchL2 struct {
	sop.L2Cache
	armed  bool
	limit  time.Time
	late   bool
	held   map[string]sop.UUID // lock keys granted and not yet released, by owner
}

func (c *vfWatchL2) note(ok bool, lk []*sop.LockKey) {
	if !ok {
		return
	}
	if c.held == nil {
		c.held = map[string]sop.UUID{}
	}
	for _, k := range lk {
		c.held[k.Key] = k.LockID
	}
}
func (c *vfWatchL2) Unlock(ctx context.Context, lk []*sop.LockKey) error {
	for _, k := range lk {
		if id, ok := c.held[k.Key]; ok && id == k.LockID {
			delete(c.held, k.Key)
		}
	}
	return c.L2Cache.Unlock(ctx, lk)
}

// snapshot copies the table of granted keys; newSince counts the keys granted after the
// snapshot was taken that are still held.
func (c *vfWatchL2) snapshot() map[string]sop.UUID {
	m := map[string]sop.UUID{}
	for k, v := range c.held {
		m[k] = v
	}
	return m
}
func (c *vfWatchL2) newSince(snap map[string]sop.UUID) int {
	n := 0
	for k, o := range c.held {
		if so, ok := snap[k]; !ok || so != o {
			n++
		}
	}
	return n
}

func (c *vfWatchL2) check() {
	if c.armed && sop.Now().After(c.limit) {
		c.late = true
		zzvf.Crash()
	}
}
func (c *vfWatchL2) Lock(ctx context.Context, d time.Duration, lk []*sop.LockKey) (bool, sop.UUID, error) {
	c.check()
	ok, id, err := c.L2Cache.Lock(ctx, d, lk)
	c.note(ok, lk)
	return ok, id, err
}
func (c *vfWatchL2) DualLock(ctx context.Context, d time.Duration, lk []*sop.LockKey) (bool, sop.UUID, error) {
	c.check()
	ok, id, err := c.L2Cache.DualLock(ctx, d, lk)
	c.note(ok, lk)
	return ok, id, err
}

// The overhead allowed on top of the budget: the retry loop tests the budget at the top of
// an iteration and then may sleep one jitter (at most 4 x 20 ms) per wait point; three wait
// points per iteration, plus clock ticks.
const vfC15Overhead = 400 * time.Millisecond

// VerifC15Budget: a writer commits while another transaction holds the node locks and the
// registry reservation of the node it needs (the holder finished phase 1 and then stalls
// or dies). Jitter sleeps are solver variables (1..4 units each). Commit must return within
// min(caller deadline, max commit time) + overhead; after the holder goes away a follow-up
// writer commits without waiting, i.e. the writer that gave up left no lock behind.
func VerifC15Budget() {
	bg := context.Background()
	w := vfNewWorld()
	wl2 := &vfWatchL2{L2Cache: cache.NewL2InMemoryCache()}
	w.l2 = wl2
	slot := 2 + 2*zzvf.Choose("slotLength", 2)
	t := w.newTx(sop.ForWriting)
	t.Begin(bg)
	b1, _ := NewBtree[int, string](bg, vfStoreOptions("s1", slot, true), t, nil)
	for _, kv := range vfBase1 {
		b1.Add(bg, kv.k, kv.v)
	}
	zzvf.Assert(t.Commit(bg) == nil, "baseline-commit")

	// the holder: updates key 20, finishes phase 1, then stalls
	w.maxTime = 15 * time.Minute
	holder := w.newTx(sop.ForWriting)
	holder.Begin(bg)
	hb, _ := OpenBtree[int, string](bg, "s1", holder, nil)
	hb.Update(bg, 20, "held")
	zzvf.Assert(holder.GetPhasedTransaction().Phase1Commit(bg) == nil, "holder-phase1")

	// the writer under test
	zzvf.ClockSymbolic(-1) // retry jitters become solver variables; clock reads tick 1 ms
	budgets := []time.Duration{100 * time.Millisecond, 300 * time.Millisecond}
	w.maxTime = budgets[zzvf.Choose("maxTime", len(budgets))]
	budget := w.maxTime
	var ctx context.Context = bg
	switch zzvf.Choose("caller-deadline", 3) {
	case 1:
		budget = 60 * time.Millisecond
		ctx = &vfDeadlineCtx{Context: bg, deadline: sop.Now().Add(budget)}
	case 2:
		ctx = &vfDeadlineCtx{Context: bg, deadline: sop.Now().Add(time.Second)}
	}
	wr := w.newTx(sop.ForWriting)
	wr.Begin(ctx)
	wb, _ := OpenBtree[int, string](ctx, "s1", wr, nil)
	keys := []int{10, 30, 50} // same leaf as the held item or another node, depending on slot length
	k := keys[zzvf.Choose("writer-key", len(keys))]
	ok, err := wb.Update(ctx, k, "mine")
	zzvf.Assert(ok && err == nil, "writer-update")
	start := sop.Now()
	wl2.limit = start.Add(budget + vfC15Overhead)
	wl2.armed = true
	snap := wl2.snapshot() // the stalled holder's keys
	var cerr error
	crashed := zzvf.CatchCrash(func() { cerr = wr.Commit(ctx) })
	wl2.armed = false
	zzvf.Assert(!crashed, "commit-stops-retrying-once-its-budget-is-used-up")
	if crashed {
		return
	}
	// node lock keys: whatever the outcome, none of the writer's may stay in the lock table
	zzvf.Assert(wl2.newSince(snap) == 0, "writer-holds-no-node-lock-after-commit-returned")
	if wl2.newSince(snap) != 0 {
		return
	}
	took := sop.Now().Sub(start)
	zzvf.Assert(took <= budget+vfC15Overhead, "commit-returns-within-budget-plus-overhead")
	if cerr == nil {
		zzvf.Reach("c15-writer-committed")
	} else {
		zzvf.Reach("c15-writer-gave-up")
	}
	// the holder goes away (rolls back); a follow-up writer on the same item must commit
	// without a single retry sleep: nothing of the writer that gave up is left locked
	zzvf.Assert(holder.Rollback(bg) == nil, "holder-rollback")
	w.maxTime = 15 * time.Minute
	f := w.newTx(sop.ForWriting)
	f.Begin(bg)
	fb, _ := OpenBtree[int, string](bg, "s1", f, nil)
	ok, err = fb.Update(bg, k, "follow-up")
	zzvf.Assert(ok && err == nil, "follow-up-update")
	fstart := sop.Now()
	zzvf.Assert(f.Commit(bg) == nil, "follow-up-commits")
	// model time is exact (only sleeps and clock reads advance it); natively the same commit costs
	// real CPU time, so the native bound only has to separate "no retry sleep" from a blocked commit
	noWait := 20 * time.Millisecond
	if !zzvf.Symbolic() {
		noWait = 1500 * time.Millisecond
	}
	zzvf.Assert(sop.Now().Sub(fstart) < noWait, "follow-up-does-not-wait-for-leftover-locks")
	zzvf.Reach("c15-end")
}

// VerifC15GiveUpAfterAcquire: the writer under test gets its node lock keys only after a
// dead holder's lock has expired (its remaining life is a solver variable, shorter than the
// writer's budget), then finds that another transaction changed its item meanwhile and gives up.
// It must return within its budget and leave no node lock key behind; a follow-up writer on
// the same node commits.
func VerifC15GiveUpAfterAcquire() {
	bg := context.Background()
	w := vfNewWorld()
	wl2 := &vfWatchL2{L2Cache: cache.NewL2InMemoryCache()}
	w.l2 = wl2
	slot := 2 + 2*zzvf.Choose("slotLength", 2)
	t := w.newTx(sop.ForWriting)
	t.Begin(bg)
	b1, _ := NewBtree[int, string](bg, vfStoreOptions("s1", slot, true), t, nil)
	for _, kv := range vfBase1 {
		b1.Add(bg, kv.k, kv.v)
	}
	zzvf.Assert(t.Commit(bg) == nil, "baseline-commit")

	w.maxTime = 600 * time.Millisecond
	wr := w.newTx(sop.ForWriting) // the writer under test reads and changes item 20 first ...
	wr.Begin(bg)
	wb, _ := OpenBtree[int, string](bg, "s1", wr, nil)
	ok, err := wb.Update(bg, 20, "mine")
	zzvf.Assert(ok && err == nil, "writer-update")

	w.maxTime = 15 * time.Minute
	a := w.newTx(sop.ForWriting) // ... then another transaction changes it and commits
	a.Begin(bg)
	ab, _ := OpenBtree[int, string](bg, "s1", a, nil)
	ok, err = ab.Update(bg, 20, "theirs")
	zzvf.Assert(ok && err == nil && a.Commit(bg) == nil, "other-writer-commits")

	// a dead holder keeps every node's lock key for a while
	// the remaining life of the dead holder's lock is a solver variable (retry sleeps are one unit
	// each here: symbolic jitters on top of a symbolic expiry make the queries too hard)
	ttlMs := zzvf.Int64("deadHolderTtlMs")
	zzvf.Assume(ttlMs >= 30)
	zzvf.Assume(ttlMs <= 400)
	ttl := time.Duration(ttlMs) * time.Millisecond
	var names []string
	for lid := range w.registry.lookup {
		names = append(names, lid.String())
	}
	dead := wl2.L2Cache.CreateLockKeys(names)
	okd, _, _ := wl2.L2Cache.Lock(bg, ttl, dead)
	zzvf.Assert(okd, "dead-holder-locks")

	snap := wl2.snapshot() // empty: the dead holder's keys were locked behind the wrapper
	start := sop.Now()
	budget := 600 * time.Millisecond
	wl2.limit = start.Add(budget + vfC15Overhead)
	wl2.armed = true
	var cerr error
	crashed := zzvf.CatchCrash(func() { cerr = wr.Commit(bg) })
	wl2.armed = false
	zzvf.Assert(!crashed, "commit-stops-retrying-once-its-budget-is-used-up")
	if crashed {
		return
	}
	zzvf.Assert(cerr != nil, "writer-with-a-stale-item-gives-up")
	zzvf.Assert(sop.Now().Sub(start) <= budget+vfC15Overhead, "commit-returns-within-budget-plus-overhead")
	zzvf.Assert(wl2.newSince(snap) == 0, "writer-holds-no-node-lock-after-giving-up")
	if wl2.newSince(snap) != 0 {
		return // a follow-up writer would only spin on the leftover keys
	}
	// follow-up writer on the same leaf
	f := w.newTx(sop.ForWriting)
	f.Begin(bg)
	fb, _ := OpenBtree[int, string](bg, "s1", f, nil)
	ok, err = fb.Update(bg, 10, "follow-up")
	zzvf.Assert(ok && err == nil, "follow-up-update")
	fstart := sop.Now()
	zzvf.Assert(f.Commit(bg) == nil, "follow-up-commits")
	noWait := 20 * time.Millisecond
	if !zzvf.Symbolic() {
		noWait = 1500 * time.Millisecond
	}
	zzvf.Assert(sop.Now().Sub(fstart) < noWait, "follow-up-does-not-wait-for-leftover-locks")
	zzvf.Reach("c15-giveup-end")
}
