//go:build verif

package common

import (
	"context"
	"time"

	"github.com/sharedcode/sop"
	"github.com/sharedcode/sop/cache"
	"github.com/sharedcode/sop/zzvf"
)

// vfDeadlineCtx is a caller context with a deadline on the model clock.
type vfDeadlineCtx struct {
	context.Context
	deadline time.Time
}

func (c *vfDeadlineCtx) Deadline() (time.Time, bool) { return c.deadline, true }
func (c *vfDeadlineCtx) Err() error {
	if sop.Now().After(c.deadline) {
		return context.DeadlineExceeded
	}
	return nil
}

// vfWatchL2 wraps the L2 cache: while armed, any lock attempt made after the commit's time
// budget plus the allowed overhead has elapsed is the violation "still retrying after the
// budget" (and ends the run, which would otherwise never end).
type vfWatchL2 struct {
	sop.L2Cache
	armed  bool
	limit  time.Time
	late   bool
}

func (c *vfWatchL2) check() {
	if c.armed && sop.Now().After(c.limit) {
		c.late = true
		zzvf.Crash()
	}
}
func (c *vfWatchL2) Lock(ctx context.Context, d time.Duration, lk []*sop.LockKey) (bool, sop.UUID, error) {
	c.check()
	return c.L2Cache.Lock(ctx, d, lk)
}
func (c *vfWatchL2) DualLock(ctx context.Context, d time.Duration, lk []*sop.LockKey) (bool, sop.UUID, error) {
	c.check()
	return c.L2Cache.DualLock(ctx, d, lk)
}

// The overhead allowed on top of the budget: the retry loop tests the budget at the top of
// an iteration and then may sleep one jitter (at most 4 x 20 ms) per wait point; three wait
// points per iteration, plus clock ticks.
const vfC15Overhead = 400 * time.Millisecond

// VerifC15Budget: a writer commits while another transaction holds the node locks and the
// registry reservation of the node it needs (the holder finished phase 1 and then stalls
// or dies). Jitter sleeps are solver variables (1..4 units each). Commit must return within
// min(caller deadline, max commit time) + overhead; after the holder goes away a follow-up
// writer commits without waiting, i.e. the writer that gave up left no lock behind.
func VerifC15Budget() {
	bg := context.Background()
	w := vfNewWorld()
	wl2 := &vfWatchL2{L2Cache: cache.NewL2InMemoryCache()}
	w.l2 = wl2
	slot := 2 + 2*zzvf.Choose("slotLength", 2)
	t := w.newTx(sop.ForWriting)
	t.Begin(bg)
	b1, _ := NewBtree[int, string](bg, vfStoreOptions("s1", slot, true), t, nil)
	for _, kv := range vfBase1 {
		b1.Add(bg, kv.k, kv.v)
	}
	zzvf.Assert(t.Commit(bg) == nil, "baseline-commit")

	// the holder: updates key 20, finishes phase 1, then stalls
	w.maxTime = 15 * time.Minute
	holder := w.newTx(sop.ForWriting)
	holder.Begin(bg)
	hb, _ := OpenBtree[int, string](bg, "s1", holder, nil)
	hb.Update(bg, 20, "held")
	zzvf.Assert(holder.GetPhasedTransaction().Phase1Commit(bg) == nil, "holder-phase1")

	// the writer under test
	zzvf.ClockSymbolic(-1) // retry jitters become solver variables; clock reads tick 1 ms
	budgets := []time.Duration{100 * time.Millisecond, 300 * time.Millisecond}
	w.maxTime = budgets[zzvf.Choose("maxTime", len(budgets))]
	budget := w.maxTime
	var ctx context.Context = bg
	switch zzvf.Choose("caller-deadline", 3) {
	case 1:
		budget = 60 * time.Millisecond
		ctx = &vfDeadlineCtx{Context: bg, deadline: sop.Now().Add(budget)}
	case 2:
		ctx = &vfDeadlineCtx{Context: bg, deadline: sop.Now().Add(time.Second)}
	}
	wr := w.newTx(sop.ForWriting)
	wr.Begin(ctx)
	wb, _ := OpenBtree[int, string](ctx, "s1", wr, nil)
	keys := []int{10, 30, 50} // same leaf as the held item or another node, depending on slot length
	k := keys[zzvf.Choose("writer-key", len(keys))]
	ok, err := wb.Update(ctx, k, "mine")
	zzvf.Assert(ok && err == nil, "writer-update")
	start := sop.Now()
	wl2.limit = start.Add(budget + vfC15Overhead)
	wl2.armed = true
	var cerr error
	crashed := zzvf.CatchCrash(func() { cerr = wr.Commit(ctx) })
	wl2.armed = false
	zzvf.Assert(!crashed, "commit-stops-retrying-once-its-budget-is-used-up")
	if crashed {
		return
	}
	took := sop.Now().Sub(start)
	zzvf.Assert(took <= budget+vfC15Overhead, "commit-returns-within-budget-plus-overhead")
	if cerr == nil {
		zzvf.Reach("c15-writer-committed")
	} else {
		zzvf.Reach("c15-writer-gave-up")
	}
	// the holder goes away (rolls back); a follow-up writer on the same item must commit
	// without a single retry sleep: nothing of the writer that gave up is left locked
	zzvf.Assert(holder.Rollback(bg) == nil, "holder-rollback")
	w.maxTime = 15 * time.Minute
	f := w.newTx(sop.ForWriting)
	f.Begin(bg)
	fb, _ := OpenBtree[int, string](bg, "s1", f, nil)
	ok, err = fb.Update(bg, k, "follow-up")
	zzvf.Assert(ok && err == nil, "follow-up-update")
	fstart := sop.Now()
	zzvf.Assert(f.Commit(bg) == nil, "follow-up-commits")
	zzvf.Assert(sop.Now().Sub(fstart) < 20*time.Millisecond, "follow-up-does-not-wait-for-leftover-locks")
	zzvf.Reach("c15-end")
}
