//go:build verif

package streamingdata

import (
	"context"
	"io"

	"github.com/sharedcode/sop/btree"
	"github.com/sharedcode/sop/inmemory"
	"github.com/sharedcode/sop/zzvf"
)

func vfNewStore() *StreamingDataStore[int] {
	b3 := inmemory.NewBtree[StreamingDataKey[int], []byte](true)
	return &StreamingDataStore[int]{BtreeInterface: b3.Btree}
}

// vfChunks returns 0..max chunks of 0..3 symbolic bytes each (lengths explored by the engine).
func vfChunks(name string, max int) [][]byte {
	n := zzvf.Choose(name+".count", max+1)
	out := make([][]byte, n)
	for i := range out {
		out[i] = zzvf.Bytes(name, zzvf.Choose(name+".len", 4))
	}
	return out
}

func vfWriteAll(w io.Writer, chunks [][]byte) bool {
	ok := true
	for _, c := range chunks {
		n, err := w.Write(c)
		if err != nil || n != len(c) {
			ok = false
		}
	}
	return ok
}

type vfEntry struct {
	key   StreamingDataKey[int]
	value []byte
}

func vfScan(s *StreamingDataStore[int]) []vfEntry {
	ctx := context.Background()
	var out []vfEntry
	ok, _ := s.BtreeInterface.First(ctx)
	for ok {
		v, _ := s.BtreeInterface.GetCurrentValue(ctx)
		out = append(out, vfEntry{s.BtreeInterface.GetCurrentKey().Key, v})
		if len(out) > 32 {
			break
		}
		ok, _ = s.BtreeInterface.Next(ctx)
	}
	return out
}

// vfExpect asserts that the store holds exactly the chunks of entry k (in index order)
// and those of entry k2, nothing else.
func vfExpect(tag string, s *StreamingDataStore[int], k int, chunks [][]byte, k2 int, chunks2 [][]byte) {
	got := vfScan(s)
	zzvf.Assert(len(got) == len(chunks)+len(chunks2), tag+": exactly-the-written-chunks-remain")
	n1, n2 := 0, 0
	for _, e := range got {
		switch {
		case e.key.Key == k:
			zzvf.Assert(e.key.ChunkIndex == n1, tag+": chunk-indexes-contiguous-from-zero")
			if n1 < len(chunks) {
				zzvf.Assert(zzvf.BytesEq(e.value, chunks[n1]), tag+": chunk-content-as-written")
			}
			n1++
		case e.key.Key == k2:
			zzvf.Assert(e.key.ChunkIndex == n2, tag+": neighbour-chunk-indexes-contiguous")
			if n2 < len(chunks2) {
				zzvf.Assert(zzvf.BytesEq(e.value, chunks2[n2]), tag+": neighbour-chunk-untouched")
			}
			n2++
		default:
			zzvf.Assert(false, tag+": no-foreign-entry")
		}
	}
	zzvf.Assert(n1 == len(chunks) && n2 == len(chunks2), tag+": chunk-counts-per-entry")
}

func vfConcat(chunks [][]byte) []byte {
	var b []byte
	for _, c := range chunks {
		b = append(b, c...)
	}
	return b
}

func vfSetup() (*StreamingDataStore[int], int, [][]byte, int, [][]byte) {
	ctx := context.Background()
	s := vfNewStore()
	k, k2 := zzvf.Int("key"), zzvf.Int("neighbourKey")
	zzvf.Assume(k != k2)
	chunks := vfChunks("chunk", 3)
	chunks2 := [][]byte{{0xa1, 0xa2}, {0xb1}}
	e2, _ := s.Add(ctx, k2)
	vfWriteAll(e2.w, chunks2)
	e2.Close()
	e, _ := s.Add(ctx, k)
	zzvf.Assert(vfWriteAll(e.w, chunks), "add: every-chunk-written")
	zzvf.Assert(e.Close() == nil, "add: close-ok")
	return s, k, chunks, k2, chunks2
}

// VerifC31ReadBack: the bytes read back through the entry's reader, with any sequence of
// read-buffer sizes 1..3 (so buffers smaller than a chunk occur), are the written bytes.
func VerifC31ReadBack() {
	ctx := context.Background()
	s, k, chunks, k2, chunks2 := vfSetup()
	vfExpect("after-add", s, k, chunks, k2, chunks2)
	want := vfConcat(chunks)
	found, err := s.FindOne(ctx, k)
	zzvf.Assert(err == nil && found == (len(chunks) > 0), "findone: true-iff-entry-has-chunks")
	if !found {
		zzvf.Reach("c31-read-empty")
		return
	}
	r := newReader[int](ctx, k, 0, s.BtreeInterface)
	var got []byte
	zeroReads := 0
	for calls := 0; calls < 24; calls++ {
		buf := make([]byte, 1+zzvf.Choose("buffer.len", 3))
		n, err := r.Read(buf)
		if err == io.EOF {
			break
		}
		zzvf.Assert(err == nil, "read: no-error")
		got = append(got, buf[:n]...)
		if n == 0 {
			zeroReads++
		}
		if len(got) > len(want)+3 {
			break
		}
	}
	zzvf.Assert(len(got) == len(want), "read: same-number-of-bytes")
	if len(got) == len(want) {
		zzvf.Assert(zzvf.BytesEq(got, want), "read: same-bytes-in-order")
	}
	zzvf.Reach("c31-read-end")
}

// VerifC31Update: updating an entry with any other chunk sequence (fewer, equal, more
// chunks) replaces it completely; the neighbouring entry is untouched.
func VerifC31Update() {
	ctx := context.Background()
	s, k, _, k2, chunks2 := vfSetup()
	newChunks := vfChunks("newChunk", 3)
	enc, err := s.Update(ctx, k)
	if enc == nil {
		// entry had no chunk: nothing to update
		zzvf.Assert(err == nil, "update: missing-entry-is-not-an-error")
		zzvf.Reach("c31-update-missing")
		return
	}
	zzvf.Assert(vfWriteAll(enc.w, newChunks), "update: every-chunk-written")
	zzvf.Assert(enc.Close() == nil, "update: close-ok")
	vfExpect("after-update", s, k, newChunks, k2, chunks2)
	zzvf.Reach("c31-update-end")
}

// VerifC31Remove: removing an entry deletes all of its chunks and nothing else.
func VerifC31Remove() {
	ctx := context.Background()
	s, k, chunks, k2, chunks2 := vfSetup()
	ok, err := s.Remove(ctx, k)
	zzvf.Assert(err == nil, "remove: no-error")
	zzvf.Assert(ok == (len(chunks) > 0), "remove: true-iff-entry-existed")
	vfExpect("after-remove", s, k, nil, k2, chunks2)
	ok, err = s.Remove(ctx, k2)
	zzvf.Assert(err == nil && ok, "remove-neighbour: ok")
	zzvf.Assert(len(vfScan(s)) == 0, "remove-neighbour: store-empty")
	zzvf.Reach("c31-remove-end")
}

var _ btree.BtreeInterface[StreamingDataKey[int], []byte]
