//go:build verif

package btree

import (
	"time"

	"github.com/google/uuid"
	"github.com/sharedcode/sop"
	"github.com/sharedcode/sop/zzvf"
)

func vfSign(c int) int {
	if c < 0 {
		return -1
	}
	if c > 0 {
		return 1
	}
	return 0
}

// vfOrderAxioms checks, for symbolic x,y,z of one key type, that the default comparison is
// reflexive, antisymmetric, transitive, agrees with the natural order given by less/equal,
// and that Compare and CoerceComparer agree.
func vfOrderAxioms[T any](tag string, x, y, z T, less func(a, b T) bool) {
	cxx, cxy, cyx := Compare(x, x), Compare(x, y), Compare(y, x)
	cyz, cxz := Compare(y, z), Compare(x, z)
	zzvf.Assert(cxx == 0, tag+"-reflexive")
	zzvf.Assert(vfSign(cxy) == -vfSign(cyx), tag+"-antisymmetric")
	if cxy <= 0 && cyz <= 0 {
		zzvf.Assert(cxz <= 0, tag+"-transitive")
	}
	if cxy == 0 && cyz == 0 {
		zzvf.Assert(cxz == 0, tag+"-equality-transitive")
	}
	zzvf.Assert((cxy < 0) == less(x, y), tag+"-natural-order-less")
	zzvf.Assert((cxy > 0) == less(y, x), tag+"-natural-order-greater")
	cc := CoerceComparer(x)
	zzvf.Assert(vfSign(cc(x, y)) == vfSign(cxy), tag+"-coerce-agrees")
	zzvf.Assert(vfSign(cc(y, z)) == vfSign(cyz), tag+"-coerce-agrees-yz")
	zzvf.Reach("c29-" + tag)
}

func VerifC29Ints() {
	switch zzvf.Choose("type", 11) {
	case 0:
		vfOrderAxioms("int", zzvf.Int("x"), zzvf.Int("y"), zzvf.Int("z"), func(a, b int) bool { return a < b })
	case 1:
		vfOrderAxioms("int8", zzvf.Int8("x"), zzvf.Int8("y"), zzvf.Int8("z"), func(a, b int8) bool { return a < b })
	case 2:
		vfOrderAxioms("int16", zzvf.Int16("x"), zzvf.Int16("y"), zzvf.Int16("z"), func(a, b int16) bool { return a < b })
	case 3:
		vfOrderAxioms("int32", zzvf.Int32("x"), zzvf.Int32("y"), zzvf.Int32("z"), func(a, b int32) bool { return a < b })
	case 4:
		vfOrderAxioms("int64", zzvf.Int64("x"), zzvf.Int64("y"), zzvf.Int64("z"), func(a, b int64) bool { return a < b })
	case 5:
		vfOrderAxioms("uint", zzvf.Uint("x"), zzvf.Uint("y"), zzvf.Uint("z"), func(a, b uint) bool { return a < b })
	case 6:
		vfOrderAxioms("uint8", zzvf.Byte("x"), zzvf.Byte("y"), zzvf.Byte("z"), func(a, b uint8) bool { return a < b })
	case 7:
		vfOrderAxioms("uint16", zzvf.Uint16("x"), zzvf.Uint16("y"), zzvf.Uint16("z"), func(a, b uint16) bool { return a < b })
	case 8:
		vfOrderAxioms("uint32", zzvf.Uint32("x"), zzvf.Uint32("y"), zzvf.Uint32("z"), func(a, b uint32) bool { return a < b })
	case 9:
		vfOrderAxioms("uint64", zzvf.Uint64("x"), zzvf.Uint64("y"), zzvf.Uint64("z"), func(a, b uint64) bool { return a < b })
	case 10:
		vfOrderAxioms("uintptr", uintptr(zzvf.Uint64("x")), uintptr(zzvf.Uint64("y")), uintptr(zzvf.Uint64("z")), func(a, b uintptr) bool { return a < b })
	}
}

// natural order of floats as documented for cmp.Compare: NaN below everything and equal
// to itself, -0 equal to +0, otherwise IEEE <.
func vfFloatLess64(a, b float64) bool {
	return zzvf.Or(zzvf.And(a != a, b == b), a < b)
}
func vfFloatLess32(a, b float32) bool {
	return zzvf.Or(zzvf.And(a != a, b == b), a < b)
}

func VerifC29Floats() {
	if zzvf.Choose("type", 2) == 0 {
		vfOrderAxioms("float64", zzvf.Float64("x"), zzvf.Float64("y"), zzvf.Float64("z"), vfFloatLess64)
	} else {
		vfOrderAxioms("float32", zzvf.Float32("x"), zzvf.Float32("y"), zzvf.Float32("z"), vfFloatLess32)
	}
}

func vfSymStr(name string, max int) string {
	return zzvf.ByteString(name, zzvf.Choose(name+".len", max+1))
}

func vfBytesLess(a, b []byte) bool {
	n := len(a)
	if len(b) < n {
		n = len(b)
	}
	// lexicographic: first differing byte decides, else shorter is less
	res := len(a) < len(b)
	for i := n - 1; i >= 0; i-- {
		res = zzvf.Or(a[i] < b[i], zzvf.And(a[i] == b[i], res))
	}
	return res
}

func VerifC29Strings() {
	if zzvf.Choose("type", 2) == 0 {
		vfOrderAxioms("string", vfSymStr("x", 3), vfSymStr("y", 3), vfSymStr("z", 3), func(a, b string) bool { return vfBytesLess([]byte(a), []byte(b)) })
	} else {
		bs := func(name string) []byte { return zzvf.Bytes(name, zzvf.Choose(name+".len", 4)) }
		vfOrderAxioms("bytes", bs("x"), bs("y"), bs("z"), vfBytesLess)
	}
}

func VerifC29UUIDs() {
	mk := func(name string) (u uuid.UUID) { copy(u[:], zzvf.Bytes(name, 16)); return }
	if zzvf.Choose("type", 2) == 0 {
		vfOrderAxioms("uuid.UUID", mk("x"), mk("y"), mk("z"), func(a, b uuid.UUID) bool { return vfBytesLess(a[:], b[:]) })
	} else {
		vfOrderAxioms("sop.UUID", sop.UUID(mk("x")), sop.UUID(mk("y")), sop.UUID(mk("z")), func(a, b sop.UUID) bool { return vfBytesLess(a[:], b[:]) })
	}
}

// VerifC29Time goes through the engine's clock model (time.Time is an intrinsic type
// there), so it checks the dispatch in Compare, not the time package itself.
func VerifC29Time() {
	mk := func(name string) time.Time { return time.UnixMilli(zzvf.Int64(name)) }
	vfOrderAxioms("time.Time", mk("x"), mk("y"), mk("z"), func(a, b time.Time) bool { return a.Before(b) })
}

func vfSliceLess[E any](a, b []E, less func(x, y E) bool) bool {
	n := len(a)
	if len(b) < n {
		n = len(b)
	}
	res := len(a) < len(b)
	for i := n - 1; i >= 0; i-- {
		lt, gt := less(a[i], b[i]), less(b[i], a[i])
		res = zzvf.Or(lt, zzvf.And(zzvf.Not(gt), res))
	}
	return res
}

func VerifC29Slices() {
	ln := func(name string) int { return zzvf.Choose(name+".len", 3) }
	switch zzvf.Choose("type", 5) {
	case 0:
		mk := func(name string) []int {
			s := make([]int, ln(name))
			for i := range s {
				s[i] = zzvf.Int(name)
			}
			return s
		}
		vfOrderAxioms("[]int", mk("x"), mk("y"), mk("z"), func(a, b []int) bool {
			return vfSliceLess(a, b, func(p, q int) bool { return p < q })
		})
	case 1:
		mk := func(name string) []float64 {
			s := make([]float64, ln(name))
			for i := range s {
				s[i] = zzvf.Float64(name)
			}
			return s
		}
		vfOrderAxioms("[]float64", mk("x"), mk("y"), mk("z"), func(a, b []float64) bool { return vfSliceLess(a, b, vfFloatLess64) })
	case 2:
		mk := func(name string) []float32 {
			s := make([]float32, ln(name))
			for i := range s {
				s[i] = zzvf.Float32(name)
			}
			return s
		}
		vfOrderAxioms("[]float32", mk("x"), mk("y"), mk("z"), func(a, b []float32) bool { return vfSliceLess(a, b, vfFloatLess32) })
	case 3:
		mk := func(name string) []string {
			s := make([]string, ln(name))
			for i := range s {
				s[i] = zzvf.ByteString(name, 1)
			}
			return s
		}
		vfOrderAxioms("[]string", mk("x"), mk("y"), mk("z"), func(a, b []string) bool {
			return vfSliceLess(a, b, func(p, q string) bool { return vfBytesLess([]byte(p), []byte(q)) })
		})
	case 4:
		// []any whose elements all have the same dynamic type (int64)
		mk := func(name string) []any {
			s := make([]any, ln(name))
			for i := range s {
				s[i] = zzvf.Int64(name)
			}
			return s
		}
		vfOrderAxioms("[]any", mk("x"), mk("y"), mk("z"), func(a, b []any) bool {
			return vfSliceLess(a, b, func(p, q any) bool { return p.(int64) < q.(int64) })
		})
	}
}
