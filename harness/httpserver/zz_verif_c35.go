//go:build verif

package main

import (
	"context"
	"hash"
	"os"
	"strconv"
	"strings"
	"time"

	"github.com/sharedcode/sop"
	"github.com/sharedcode/sop/btree"
	"github.com/sharedcode/sop/common"
	"github.com/sharedcode/sop/common/mocks"
	"github.com/sharedcode/sop/zzvf"
)

// ---- engine-side stand-ins (used only under the engine; native runs use the real ones) ----

// vfBackend is the storage behind the session store under the engine: the real SOP
// transaction and B-tree code over the repository's in-memory mock back ends.
var vfBackend struct {
	blobs sop.BlobStore
	repo  sop.StoreRepository
	reg   sop.Registry
	l2    sop.L2Cache
	tlog  sop.TransactionLog
}

func vfGetStore(s *SessionStore, ctx context.Context) (btree.BtreeInterface[string, SessionRecord], sop.Transaction, error) {
	if vfBackend.repo == nil {
		vfBackend.blobs, vfBackend.repo, vfBackend.reg = mocks.NewMockBlobStore(), mocks.NewMockStoreRepository(), mocks.NewMockRegistry(false)
		vfBackend.l2, vfBackend.tlog = mocks.NewMockClient(), vfNoLog{}
	}
	t2, err := common.NewTwoPhaseCommitTransaction(sop.ForWriting, -1, vfBackend.blobs, vfBackend.repo, vfBackend.reg, vfBackend.l2, vfBackend.tlog)
	if err != nil {
		return nil, nil, err
	}
	tx, _ := sop.NewTransaction(sop.ForWriting, t2)
	if err := tx.Begin(ctx); err != nil {
		return nil, nil, err
	}
	so := sop.StoreOptions{Name: sessionStoreName, SlotLength: 8, IsUnique: true, IsValueDataInNodeSegment: true}
	store, err := common.NewBtree[string, SessionRecord](ctx, so, tx, nil)
	if err != nil {
		return nil, nil, err
	}
	return store, tx, nil
}

// vfNoLog is a transaction log that keeps nothing (no crash recovery in this harness).
type vfNoLog struct{}

func (vfNoLog) PriorityLog() sop.TransactionPriorityLog { return vfNoPrio{} }
func (vfNoLog) Add(ctx context.Context, tid sop.UUID, fn int, payload []byte) error { return nil }
func (vfNoLog) Remove(ctx context.Context, tid sop.UUID) error                      { return nil }
func (vfNoLog) GetOne(ctx context.Context) (sop.UUID, string, []sop.KeyValuePair[int, []byte], error) {
	return sop.NilUUID, "", nil, nil
}
func (vfNoLog) GetOneOfHour(ctx context.Context, hour string) (sop.UUID, []sop.KeyValuePair[int, []byte], error) {
	return sop.NilUUID, nil, nil
}
func (vfNoLog) NewUUID() sop.UUID { return sop.NewUUID() }

type vfNoPrio struct{}

func (vfNoPrio) IsEnabled() bool                                                  { return false }
func (vfNoPrio) Add(ctx context.Context, tid sop.UUID, payload []byte) error      { return nil }
func (vfNoPrio) Remove(ctx context.Context, tid sop.UUID) error                   { return nil }
func (vfNoPrio) Get(ctx context.Context, tid sop.UUID) ([]sop.RegistryPayload[sop.Handle], error) {
	return nil, nil
}
func (vfNoPrio) GetBatch(ctx context.Context, n int) ([]sop.KeyValuePair[sop.UUID, []sop.RegistryPayload[sop.Handle]], error) {
	return nil, nil
}
func (vfNoPrio) ProcessNewer(ctx context.Context, f func(tid sop.UUID, payload []sop.RegistryPayload[sop.Handle]) error) error {
	return nil
}
func (vfNoPrio) LogCommitChanges(ctx context.Context, stores []sop.StoreInfo, a, b, c, d []sop.RegistryPayload[sop.Handle]) error {
	return nil
}

// base64 stand-in: a bijection between byte slices and strings without '.' or '='.
var vfEncoded [][]byte

func vfB64Encode(data []byte) string {
	for i, e := range vfEncoded {
		// one-element slices are marshalled documents of the structural JSON model: never compared
		if len(e) > 1 && len(data) > 1 && vfHmacEqual(e, data) {
			return "b64-" + strconv.Itoa(i)
		}
	}
	vfEncoded = append(vfEncoded, data)
	return "b64-" + strconv.Itoa(len(vfEncoded)-1)
}
func vfB64Decode(s string) ([]byte, error) {
	if !strings.HasPrefix(s, "b64-") {
		return nil, os.ErrInvalid
	}
	n, err := strconv.Atoi(s[4:])
	if err != nil || n < 0 || n >= len(vfEncoded) {
		return nil, vfErrBadEncoding
	}
	return vfEncoded[n], nil
}

var vfErrBadEncoding = &vfErr{"bad encoding"}

type vfErr struct{ s string }

func (e *vfErr) Error() string { return e.s }

// HMAC stand-in: a keyed digest that depends on every byte of key and message.
type vfMac struct {
	key  []byte
	data []byte
}

func vfHmacNew(h func() hash.Hash, key []byte) hash.Hash {
	return &vfMac{key: append([]byte(nil), key...)}
}
func (m *vfMac) Write(p []byte) (int, error) { m.data = append(m.data, p...); return len(p), nil }
func (m *vfMac) Sum(b []byte) []byte {
	var st [4]uint64
	for i := range st {
		st[i] = 14695981039346656037 + uint64(i)*1099511628211
	}
	mix := func(c byte) {
		for i := range st {
			st[i] ^= uint64(c) + uint64(i)
			st[i] *= 1099511628211
		}
	}
	for _, c := range m.key {
		mix(c)
	}
	mix(0)
	for _, c := range m.data {
		mix(c)
	}
	out := make([]byte, 0, 32)
	for i := range st {
		for k := 0; k < 8; k++ {
			out = append(out, byte(st[i]>>(8*uint(k))))
		}
	}
	return append(b, out...)
}
func (m *vfMac) Reset()         { m.data = nil }
func (m *vfMac) Size() int      { return 32 }
func (m *vfMac) BlockSize() int { return 64 }

func vfHmacEqual(a, b []byte) bool {
	if len(a) != len(b) {
		return false
	}
	same := true
	for i := range a {
		if a[i] != b[i] {
			same = false
		}
	}
	return same
}

var vfRandCounter byte

func vfRandRead(b []byte) (int, error) {
	vfRandCounter++
	for i := range b {
		b[i] = vfRandCounter
	}
	return len(b), nil
}

// ---- harness ----

const vfTTL = 2 * time.Second

// vfPass lets a solver-chosen amount of time pass (0..3 s): model clock under the engine,
// real sleep natively (the code under test reads time.Now).
func vfPass(name string) {
	d := zzvf.Int64(name)
	zzvf.Assume(d >= 0)
	zzvf.Assume(d <= 3000)
	if zzvf.Symbolic() {
		zzvf.Advance(d * int64(time.Millisecond))
	} else {
		time.Sleep(time.Duration(d) * time.Millisecond)
	}
}

func vfSetup() *SessionStore {
	if !zzvf.Symbolic() {
		dir, _ := os.MkdirTemp("", "vfsess")
		os.Chdir(dir)
	}
	config.SessionSecret = "secret-one"
	zzvf.ClockSymbolic(-1)
	return NewSessionStore(vfTTL)
}

func vfValid(s *SessionStore, token string) bool {
	u, err := s.ValidateToken(context.Background(), token)
	return err == nil && u != nil
}

// vfMutations returns altered versions of an access token.
func vfMutate(token, other string) string {
	parts := strings.Split(token, ".")
	oparts := strings.Split(other, ".")
	switch zzvf.Choose("mutation", 6) {
	case 0:
		return token + "x" // signature extended
	case 1:
		return parts[0] + "." + parts[1] + "." + parts[2][:len(parts[2])-1] // signature shortened
	case 2:
		return parts[0] + "." + oparts[1] + "." + parts[2] // another token's claims under this signature
	case 3:
		return parts[0] + "." + parts[1] + "." + oparts[2] // another token's signature
	case 4:
		return parts[0] + "." + parts[1] // signature dropped
	default:
		return parts[1] + "." + parts[0] + "." + parts[2] // header and claims swapped
	}
}

// VerifC35Forgery: a token signed with another secret, and every listed alteration of a
// valid token, is rejected at any time; the unaltered token is accepted while unexpired.
func VerifC35Forgery() {
	ctx := context.Background()
	s := vfSetup()
	alice, _, err := s.CreateSession(ctx, "alice", "user")
	zzvf.Assert(err == nil, "create-session")
	admin, _, err := s.CreateSession(ctx, "root", "admin")
	zzvf.Assert(err == nil, "create-second-session")
	zzvf.Assert(vfValid(s, alice), "fresh-token-accepted")
	_, perr := parseAndVerifySignedAccessToken(alice)
	zzvf.Assert(perr == nil, "fresh-token-passes-signature-verification")
	// forged with a guessed secret
	config.SessionSecret = "guess"
	forged, _ := signAccessToken("alice", "admin", time.Now(), time.Now().Add(time.Hour), "id")
	config.SessionSecret = "secret-one"
	vfPass("elapsedMs")
	zzvf.Assert(!vfValid(s, forged), "token-signed-with-another-secret-rejected")
	zzvf.Assert(!vfValid(s, vfMutate(alice, admin)), "altered-token-rejected")
	// the server's secret is rotated: tokens issued before are no longer accepted by signature
	zzvf.Reach("c35-forgery-end")
}

// VerifC35Expiry: a token is accepted exactly while unexpired: for every elapsed time, not
// accepted once the time to live has passed (whole seconds: the claims carry Unix seconds).
func VerifC35Expiry() {
	ctx := context.Background()
	s := vfSetup()
	start := time.Now()
	tok, _, err := s.CreateSession(ctx, "alice", "user")
	zzvf.Assert(err == nil, "create-session")
	created := time.Now()
	vfPass("elapsedMs")
	before := time.Now()
	ok := vfValid(s, tok)
	after := time.Now()
	if ok {
		zzvf.Assert(!before.After(created.Add(vfTTL+time.Second)), "token-not-accepted-after-expiry")
	} else {
		zzvf.Assert(after.After(start.Add(vfTTL-time.Second)), "token-accepted-before-expiry")
	}
	zzvf.Reach("c35-expiry-end")
}

// vfSessionSequence runs sequences of refresh / revoke on a session. checkDead: every token
// revoked or rotated away must be rejected afterwards; otherwise only the refresh contract
// is checked (a successful refresh returns an access token that is valid when issued, and
// the old refresh token stops working; the refresh token of a revoked session is useless).
func vfSessionSequence(checkDead bool) {
	ctx := context.Background()
	s := vfSetup()
	access, refresh, err := s.CreateSession(ctx, "alice", "user")
	zzvf.Assert(err == nil, "create-session")
	dead := []string{}
	for i := 0; i < 2; i++ {
		vfPass("elapsedMs")
		switch zzvf.Choose("action", 3) {
		case 0: // refresh
			na, nr, rerr := s.Refresh(ctx, refresh)
			if rerr == nil {
				if !checkDead {
					zzvf.Assert(vfValid(s, na), "refreshed-access-token-valid-when-issued")
					_, _, again := s.Refresh(ctx, refresh)
					zzvf.Assert(again != nil, "old-refresh-token-stops-working")
				}
				dead = append(dead, access)
				access, refresh = na, nr
				zzvf.Reach("c35-refreshed")
			}
		case 1: // logout
			s.RevokeToken(ctx, access)
			dead = append(dead, access)
			if !checkDead {
				_, _, rerr := s.Refresh(ctx, refresh)
				zzvf.Assert(rerr != nil, "refresh-token-of-revoked-session-rejected")
			}
			zzvf.Reach("c35-revoked")
		case 2: // nothing
		}
		if checkDead {
			for _, d := range dead {
				zzvf.Assert(!vfValid(s, d), "revoked-or-rotated-token-rejected")
			}
		}
	}
	zzvf.Reach("c35-sequence-end")
}

// VerifC35Refresh: the refresh contract over all sequences and elapsed times.
func VerifC35Refresh() { vfSessionSequence(false) }

// VerifC35Revocation: tokens revoked by logout or rotated away by refresh are rejected.
func VerifC35Revocation() {
	// KF-C35-1: the signature fast path of ValidateToken never consults the session store
	zzvf.Known("KF-C35-1", true)
	vfSessionSequence(true)
}

