//go:build verif

package inmemory

import (
	"context"

	"github.com/sharedcode/sop"
	"github.com/sharedcode/sop/zzvf"
)

// prebuilt key lists (inserted in this order); duplicates span nodes at slot length 2 and 4
var vfFindShapes = [][]int{
	{},
	{10},
	{10, 20, 30, 40, 50},
	{20, 20, 20, 20, 20, 20, 40},         // equal keys in an inner node and the subtree right of it
	{10, 30, 30, 30, 50, 30, 30, 70, 30}, // duplicates added around other keys
	{50, 40, 30, 20, 10, 20, 40},         // descending inserts
}

func vfBuildFind() (*vfTree, []vfItem) {
	slot := 2 + 2*zzvf.Choose("slotLength", 2)
	t := vfNewTree(slot, false, zzvf.Choose("leafLoadBalancing", 2) == 1)
	keys := vfFindShapes[zzvf.Choose("shape", len(vfFindShapes))]
	for _, k := range keys {
		id := t.nextID
		t.nextID++
		t.b3.Add(k, id)
		t.keyOf[id] = k
		t.live[id] = true
	}
	return t, t.check("build")
}

// VerifC18Find: for a symbolic probe key, Find(first) lands on the first of the equal keys,
// the descending find on the last, FindWithID on the requested duplicate, and a miss
// reports false.
func VerifC18Find() {
	t, fw := vfBuildFind()
	k := zzvf.Int("probe")
	first, last := -1, -1
	for i, it := range fw {
		if it.key == k {
			if first < 0 {
				first = i
			}
			last = i
		}
	}
	found := t.b3.Find(k, true)
	zzvf.Assert(found == (first >= 0), "find-first: true-iff-present")
	if found && first >= 0 {
		zzvf.Assert(t.b3.GetCurrentKey() == k, "find-first: cursor-has-the-key")
		zzvf.Assert(t.b3.GetCurrentValue() == fw[first].val, "find-first: cursor-on-first-of-equal-keys")
	}
	found = t.b3.FindInDescendingOrder(k)
	zzvf.Assert(found == (first >= 0), "find-desc: true-iff-present")
	if found && last >= 0 {
		zzvf.Assert(t.b3.GetCurrentKey() == k, "find-desc: cursor-has-the-key")
		zzvf.Assert(t.b3.GetCurrentValue() == fw[last].val, "find-desc: cursor-on-last-of-equal-keys")
	}
	found = t.b3.Find(k, false)
	zzvf.Assert(found == (first >= 0), "find-any: true-iff-present")
	if found {
		zzvf.Assert(t.b3.GetCurrentKey() == k, "find-any: cursor-has-the-key")
	}
	// FindWithID on each duplicate
	if first >= 0 {
		ctx := context.Background()
		// collect item ids by scanning
		ids := map[int]sop.UUID{}
		for ok := t.b3.First(); ok; ok = t.b3.Next() {
			it, _ := t.b3.Btree.GetCurrentItem(ctx)
			ids[*it.Value] = it.ID
		}
		j := first + zzvf.Choose("duplicate", last-first+1)
		ok, err := t.b3.Btree.FindWithID(ctx, k, ids[fw[j].val])
		zzvf.Assert(err == nil && ok, "find-with-id: finds-the-requested-duplicate")
		if ok {
			zzvf.Assert(t.b3.GetCurrentValue() == fw[j].val, "find-with-id: cursor-on-requested-item")
		}
	}
	zzvf.Reach("c18-find-end")
}

// VerifC18Range: Range/RangeDesc with symbolic bounds return exactly the items whose key
// lies in the range, in order (this exercises the cursor position after a miss).
func VerifC18Range() {
	t, fw := vfBuildFind()
	from, to := zzvf.Int("from"), zzvf.Int("to")
	var want []int
	for _, it := range fw {
		if from <= it.key && it.key <= to {
			want = append(want, it.val)
		}
	}
	var got []int
	for k, v := range t.b3.Range(from, to) {
		zzvf.Assert(from <= k && k <= to, "range: key-inside-bounds")
		got = append(got, v)
		if len(got) > 64 {
			break
		}
	}
	zzvf.Assert(len(got) == len(want), "range: exactly-the-items-in-range")
	if len(got) == len(want) {
		for i := range got {
			zzvf.Assert(got[i] == want[i], "range: ascending-order")
		}
	}
	// descending: from is the high bound, to the low bound
	hi, lo := to, from
	var gotD []int
	for k, v := range t.b3.RangeDesc(hi, lo) {
		zzvf.Assert(lo <= k && k <= hi, "rangedesc: key-inside-bounds")
		gotD = append(gotD, v)
		if len(gotD) > 64 {
			break
		}
	}
	zzvf.Assert(len(gotD) == len(want), "rangedesc: exactly-the-items-in-range")
	if len(gotD) == len(want) {
		// same key multiset in reverse key order: compare keys, equal keys may come in either order
		for i := range gotD {
			zzvf.Assert(t.keyOf[gotD[i]] == t.keyOf[want[len(want)-1-i]], "rangedesc: descending-order")
		}
	}
	zzvf.Reach("c18-range-end")
}
