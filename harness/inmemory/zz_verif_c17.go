//go:build verif

package inmemory

import (
	"github.com/sharedcode/sop"
	"github.com/sharedcode/sop/btree"
	"github.com/sharedcode/sop/zzvf"
)

// vfTree is a B-tree over int keys whose values are unique insertion ids, together with
// the oracle state: the ids that are live and the (possibly symbolic) key each id was
// written under. Which of several equal keys an operation touches is unspecified, so the
// model is "a set of live ids, each with its key", and every operation is checked by what
// it did to that set.
type vfTree struct {
	b3     BtreeInterface[int, int]
	unique bool
	live   map[int]bool
	keyOf  map[int]int
	nextID int
}

func vfNewTree(slotLength int, unique, loadBalancing bool) *vfTree {
	so := sop.StoreOptions{
		Name:                         "vf",
		SlotLength:                   slotLength,
		IsUnique:                     unique,
		IsValueDataInNodeSegment:     true,
		IsValueDataActivelyPersisted: true,
		LeafLoadBalancing:            loadBalancing,
	}
	s := sop.NewStoreInfo(so)
	si := btree.StoreInterface[int, int]{
		NodeRepository:    newNodeRepository[int, int](),
		ItemActionTracker: newDumbItemActionTracker[int, int](),
	}
	b3, _ := btree.New[int, int](s, &si, nil)
	return &vfTree{b3: BtreeInterface[int, int]{Btree: b3}, unique: unique, live: map[int]bool{}, keyOf: map[int]int{}}
}

// exists is "some live item has key k" as one (possibly symbolic) boolean.
func (t *vfTree) exists(k int) bool {
	res := false
	for id := range t.live {
		res = zzvf.Or(res, t.keyOf[id] == k)
	}
	return res
}

type vfItem struct {
	key int
	val int
}

func (t *vfTree) scan(forward bool) []vfItem {
	var out []vfItem
	ok := false
	if forward {
		ok = t.b3.First()
	} else {
		ok = t.b3.Last()
	}
	for ok {
		out = append(out, vfItem{t.b3.GetCurrentKey(), t.b3.GetCurrentValue()})
		if len(out) > 64 {
			zzvf.Assert(false, "scan-terminates")
			break
		}
		if forward {
			ok = t.b3.Next()
		} else {
			ok = t.b3.Previous()
		}
	}
	return out
}

// check compares the tree with the model after an operation that should have removed the
// ids in gone (each must have had key k) and added the ids in added.
func (t *vfTree) check(tag string) (fw []vfItem) {
	fw = t.scan(true)
	bw := t.scan(false)
	zzvf.Assert(t.b3.Count() == len(fw), tag+": count-equals-scan-length")
	zzvf.Assert(len(bw) == len(fw), tag+": backward-scan-same-length")
	seen := map[int]bool{}
	ordered, keysRight := true, true // symbolic conditions are accumulated: one query each
	for i, it := range fw {
		if i > 0 {
			if t.unique {
				ordered = zzvf.And(ordered, fw[i-1].key < it.key)
			} else {
				ordered = zzvf.And(ordered, fw[i-1].key <= it.key)
			}
		}
		zzvf.Assert(!seen[it.val], tag+": no-item-twice")
		seen[it.val] = true
		k, known := t.keyOf[it.val]
		zzvf.Assert(known, tag+": value-was-written")
		if known {
			keysRight = zzvf.And(keysRight, it.key == k)
		}
		if len(bw) == len(fw) {
			zzvf.Assert(bw[len(fw)-1-i].val == it.val, tag+": backward-scan-is-reverse")
		}
	}
	if t.unique {
		zzvf.Assert(ordered, tag+": keys-strictly-increasing")
	} else {
		zzvf.Assert(ordered, tag+": keys-in-order")
	}
	zzvf.Assert(keysRight, tag+": every-item-has-its-key")
	return fw
}

// settle brings the model's live set to what the scan shows and asserts the difference is
// exactly what the operation is allowed to do.
func (t *vfTree) settle(tag string, fw []vfItem, k int, wantRemoved, wantAdded int, addedID int) {
	now := map[int]bool{}
	for _, it := range fw {
		now[it.val] = true
	}
	removed, added := 0, 0
	for id := range t.live {
		if !now[id] {
			removed++
			zzvf.Assert(t.keyOf[id] == k, tag+": removed-item-had-the-key")
		}
	}
	for id := range now {
		if !t.live[id] {
			added++
			zzvf.Assert(id == addedID, tag+": only-the-new-item-appears")
		}
	}
	zzvf.Assert(removed == wantRemoved, tag+": items-removed")
	zzvf.Assert(added == wantAdded, tag+": items-added")
	t.live = now
}

func b2i(b bool) int {
	if b {
		return 1
	}
	return 0
}

const (
	vfAdd = iota
	vfAddIfNotExist
	vfUpsert
	vfUpdate
	vfRemove
	vfRemoveCurrent
	vfUpdateCurrentKey
	vfNumOps
)

func (t *vfTree) apply(op int, k int) {
	id := t.nextID
	t.nextID++
	ex := t.exists(k)
	switch op {
	case vfAdd:
		ret := t.b3.Add(k, id)
		t.keyOf[id] = k
		if t.unique {
			zzvf.Assert(ret == !ex, "add: succeeds-iff-key-absent-in-unique-store")
		} else {
			zzvf.Assert(ret, "add: always-succeeds-with-duplicates-allowed")
		}
		t.settle("add", t.check("add"), k, 0, b2i(ret), id)
	case vfAddIfNotExist:
		ret := t.b3.AddIfNotExist(k, id)
		t.keyOf[id] = k
		zzvf.Assert(ret == !ex, "addifnotexist: succeeds-iff-key-absent")
		t.settle("addifnotexist", t.check("addifnotexist"), k, 0, b2i(ret), id)
	case vfUpsert:
		ret := t.b3.Upsert(k, id)
		t.keyOf[id] = k
		zzvf.Assert(ret, "upsert: succeeds")
		fw := t.check("upsert")
		// either one item of that key was replaced, or a new one was added
		now := map[int]bool{}
		for _, it := range fw {
			now[it.val] = true
		}
		gone := 0
		for old := range t.live {
			if !now[old] {
				gone++
			}
		}
		zzvf.Assert(zzvf.Implies(zzvf.Not(ex), gone == 0), "upsert: adds-when-key-absent")
		zzvf.Assert(zzvf.Implies(ex, gone == 1), "upsert: replaces-when-key-present")
		t.settle("upsert", fw, k, gone, 1, id)
	case vfUpdate:
		ret := t.b3.Update(k, id)
		t.keyOf[id] = k
		zzvf.Assert(ret == ex, "update: succeeds-iff-key-present")
		t.settle("update", t.check("update"), k, b2i(ret), b2i(ret), id)
	case vfRemove:
		ret := t.b3.Remove(k)
		zzvf.Assert(ret == ex, "remove: succeeds-iff-key-present")
		t.settle("remove", t.check("remove"), k, b2i(ret), 0, -1)
	case vfRemoveCurrent:
		found := t.b3.Find(k, false)
		zzvf.Assert(found == ex, "find: true-iff-key-present")
		if found {
			ret := t.b3.RemoveCurrentItem()
			zzvf.Assert(ret, "removecurrent: succeeds-on-selected-item")
			t.settle("removecurrent", t.check("removecurrent"), k, 1, 0, -1)
		}
	case vfUpdateCurrentKey:
		// move to the item with key k, then try to change its key to k2: allowed only if
		// the item keeps its place in the order
		found := t.b3.Find(k, true)
		zzvf.Assert(found == ex, "find-first: true-iff-key-present")
		if found {
			cur := t.b3.GetCurrentValue()
			k2 := zzvf.Int("newKey")
			before := t.scan(true)
			pos := -1
			for i, it := range before {
				if it.val == cur {
					pos = i
				}
			}
			t.b3.Find(k, true)
			ret := t.b3.UpdateCurrentKey(k2)
			if ret {
				t.keyOf[cur] = k2
			}
			fw := t.check("updatecurrentkey")
			zzvf.Assert(len(fw) == len(before), "updatecurrentkey: no-item-lost-or-added")
			if ret && pos >= 0 && len(fw) == len(before) {
				zzvf.Assert(fw[pos].val == cur, "updatecurrentkey: item-keeps-its-position")
			}
			t.settle("updatecurrentkey", fw, k, 0, 0, -1)
		}
	}
}

// prefill builds a concrete shape: n ascending keys 10,20,..., then removal of the listed ones.
func (t *vfTree) prefill(n int, remove []int) {
	var keys []int
	for i := 1; i <= n; i++ {
		keys = append(keys, i*10)
	}
	if n < 0 {
		keys = vfScrambled // a non-monotone insertion order
	}
	for _, k := range keys {
		id := t.nextID
		t.nextID++
		t.b3.Add(k, id)
		t.keyOf[id] = k
		t.live[id] = true
	}
	for _, k := range remove {
		for id := range t.live {
			if t.keyOf[id] == k {
				delete(t.live, id)
				break
			}
		}
		t.b3.Remove(k)
	}
}

var vfShapes = []struct {
	n      int
	remove []int
}{
	{0, nil},
	{3, nil},
	{6, nil},
	{7, []int{20, 30}},      // removals that leave nil children / unlinked nodes (slot length 2)
	{9, []int{10, 50, 90}},
	{-1, []int{30, 50}}, // nine keys inserted in scrambled order, two removed again
}

var vfScrambled = []int{80, 150, 130, 30, 0, 170, 70, 120, 50}

func vfRun(nOps int, shapes int) { vfRunShape(nOps, -shapes) }

// vfRunShape: shape >= 0 selects one shape, shape < 0 lets the engine choose among the first -shape.
func vfRunShape(nOps int, shape int) {
	var slot int
	var unique, lb bool
	if zzvf.Thorough() {
		slot = 2 + 2*zzvf.Choose("slotLength", 2)
		unique = zzvf.Choose("unique", 2) == 1
		lb = zzvf.Choose("leafLoadBalancing", 2) == 1
	} else {
		// quick tier: four of the eight configurations (each value of each option twice)
		switch zzvf.Choose("config", 4) {
		case 0:
			slot, unique, lb = 2, false, true
		case 1:
			slot, unique, lb = 2, true, false
		case 2:
			slot, unique, lb = 4, false, false
		case 3:
			slot, unique, lb = 4, true, true
		}
	}
	t := vfNewTree(slot, unique, lb)
	var sh struct {
		n      int
		remove []int
	}
	if shape >= 0 {
		sh = vfShapes[shape]
	} else {
		sh = vfShapes[zzvf.Choose("shape", -shape)]
	}
	// KF-C17-1: leaf load balancing, tree built in scrambled order with removals: a later add
	// rotates an item through a node with a nil child and a phantom zero-key item appears
	zzvf.Known("KF-C17-1", lb && sh.n < 0)
	t.prefill(sh.n, sh.remove)
	t.check("prefill")
	for i := 0; i < nOps; i++ {
		op := zzvf.Choose("op", vfNumOps)
		k := zzvf.Int("key")
		t.apply(op, k)
	}
	zzvf.Reach("c17-end")
}

// VerifC17Ops: two operations with symbolic keys on each of the prebuilt shapes (quick: the
// first four shapes and four configurations; thorough: all shapes and configurations), for slot length 2 and 4, unique and duplicate stores, with and without
// leaf load balancing.
func VerifC17Ops() {
	if zzvf.Thorough() {
		vfRun(2, len(vfShapes)) // all shapes, all eight configurations
	} else {
		vfRun(2, 4)
	}
}

// VerifC17Scrambled: two operations with symbolic keys on a tree built by inserting nine keys
// in a non-monotone order and removing two of them again.
func VerifC17Scrambled() {
	vfRunShape(2, len(vfShapes)-1)
}

// VerifC17FromEmpty: three operations from the empty tree.
func VerifC17FromEmpty() {
	vfRun(3, 1) // thorough: all eight configurations
}
