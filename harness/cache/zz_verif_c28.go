//go:build verif

package cache

import (
	"context"
	"time"

	"github.com/sharedcode/sop"
	"github.com/sharedcode/sop/zzvf"
)

type vfHold struct {
	owner    int
	notAfter time.Time // the lock is certainly unexpired up to here
	expired  time.Time // the lock is certainly expired after here
}

// vfSameShardKeys returns n key names that fall into one shard of m.
func vfSameShardKeys(m *shardedMap, n int) []string {
	var out []string
	var sh *shard
	for i := 0; len(out) < n && i < 5000; i++ {
		k := "Lk" + string(rune('a'+i%26)) + string(rune('a'+(i/26)%26)) + string(rune('a'+(i/676)%26))
		s := m.getShard(k)
		if sh == nil {
			sh = s
		}
		if s == sh {
			out = append(out, k)
		}
	}
	return out
}

// VerifC28Locks: two owners run every sequence of Lock / DualLock / Unlock calls over
// two keys of one shard (single keys and a two-key set), with the clock advanced by a
// solver-chosen amount between calls (TTL 100 ms) and shard capacity 1, 2 or 1000. After
// every call: a key is never granted to an owner while the other certainly holds it
// unexpired; a holder that certainly still holds its key is confirmed by IsLocked and the
// other owner is not; a release by the non-holder changes nothing.
func VerifC28Locks() { vfLockSequences(false) }

// VerifC28ExpiryTakeover: the same exploration after a fixed prefix in which owner 0 locks
// k0, a solver-chosen time passes and owner 1 asks for k0 (taking it over if the first lock
// has expired): two more free steps, shard capacity 1000.
func VerifC28ExpiryTakeover() { vfLockSequences(true) }

func vfLockSequences(takeover bool) {
	ctx := context.Background()
	caps := []int{1, 1000}
	if zzvf.Thorough() {
		caps = []int{1, 2, 1000}
	}
	if takeover {
		caps = []int{1000}
	}
	capacity := caps[zzvf.Choose("shard-capacity", len(caps))]
	DefaultInMemoryCacheShardCapacity = capacity
	c := NewL2InMemoryCache().(*L2InMemoryCache)
	keys := vfSameShardKeys(c.locks, 3)
	zzvf.Assert(len(keys) == 3, "three-keys-in-one-shard")
	ids := []sop.UUID{{0xa1, 15: 1}, {0xb2, 15: 2}}
	// each owner keeps its LockKey objects, as the callers in sop do (the IsLockOwner flag lives there)
	lk := [2][3]*sop.LockKey{}
	for o := 0; o < 2; o++ {
		for k := 0; k < 3; k++ {
			lk[o][k] = &sop.LockKey{Key: keys[k], LockID: ids[o]}
		}
	}
	sets := [][]int{{0}, {1}, {0, 1}}
	holds := map[int]vfHold{}
	const ttl = 100 * time.Millisecond
	zzvf.ClockSymbolic(-1)
	steps := 3
	if zzvf.Thorough() {
		steps = 4
	}
	// KF-C28-1: with fewer slots in the shard than keys in use, storing a lock evicts another live lock
	zzvf.Known("KF-C28-1", capacity < len(sets)-1+1 && capacity < 3)
	prefix := 0
	if takeover {
		prefix = 3
		steps += 2
	}
	for s := 0; s < steps; s++ {
		op := 0
		if s < prefix {
			op = []int{0, 3, 0}[s]
		} else {
			// Lock, Unlock, advance. (DualLock is Lock followed by IsLocked, both exercised here; it is
			// left out of the alphabet: with it the engine reported refused-lock states that native
			// runs did not reproduce, i.e. an artefact of the time model that was not tracked down.)
			op = []int{0, 2, 3}[zzvf.Choose("op", 3)]
		}
		if op == 3 {
			d := zzvf.Int64("advanceMs")
			zzvf.Assume(d >= 0)
			zzvf.Assume(d <= 300)
			if zzvf.Symbolic() {
				zzvf.Advance(d * int64(time.Millisecond))
			} else {
				time.Sleep(time.Duration(d) * time.Millisecond) // the cache reads the real clock
			}
		} else {
			o, set := 0, sets[0]
			if s < prefix {
				o = []int{0, 0, 1}[s]
			} else {
				o = zzvf.Choose("owner", 2)
				set = sets[zzvf.Choose("keys", len(sets))]
			}
			var arg []*sop.LockKey
			for _, k := range set {
				arg = append(arg, lk[o][k])
			}
			before := time.Now()
			switch op {
			case 0, 1:
				var ok bool
				var err error
				if op == 0 {
					ok, _, err = c.Lock(ctx, ttl, arg)
				} else {
					ok, _, err = c.DualLock(ctx, ttl, arg)
				}
				after := time.Now()
				zzvf.Assert(err == nil, "lock-no-error")
				if ok {
					for _, k := range set {
						if h, held := holds[k]; held && h.owner != o {
							zzvf.Assert(!zzvf.Not(after.After(h.notAfter)), "key-granted-while-another-owner-holds-it-unexpired")
						}
						nh := vfHold{owner: o, notAfter: before.Add(ttl), expired: after.Add(ttl)}
						if h, held := holds[k]; held && h.owner == o {
							// re-entrant lock: the entry may keep its first expiry
							nh.notAfter = h.notAfter
						}
						holds[k] = nh
					}
				} else {
					// refused: nothing may be left locked for this owner by this call
					for _, k := range set {
						if h, held := holds[k]; !held || h.owner != o {
							ok2, _ := c.IsLocked(ctx, []*sop.LockKey{lk[o][k]})
							zzvf.Assert(!ok2, "refused-lock-leaves-nothing-held")
						}
					}
				}
			case 2:
				zzvf.Assert(c.Unlock(ctx, arg) == nil, "unlock-no-error")
				for _, k := range set {
					if h, held := holds[k]; held && h.owner == o {
						delete(holds, k)
					}
				}
			}
		}
		// observation after every step
		for k := 0; k < 3; k++ {
			h, held := holds[k]
			if !held {
				continue
			}
			now := time.Now()
			if zzvf.Not(now.Before(h.notAfter)) {
				if now.After(h.expired) {
					delete(holds, k) // certainly expired
				}
				continue // may have expired: no expectation
			}
			ok, _ := c.IsLocked(ctx, []*sop.LockKey{lk[h.owner][k]})
			still := time.Now().Before(h.notAfter)
			zzvf.Assert(ok || !still, "holder-still-holds-its-unexpired-lock")
			other, _ := c.IsLocked(ctx, []*sop.LockKey{lk[1-h.owner][k]})
			zzvf.Assert(!other, "non-holder-is-not-reported-as-holder")
		}
	}
	zzvf.Reach("c28-end")
}

