//go:build verif

package cache

import "github.com/sharedcode/sop"

// VerifResetGlobals forgets the process-wide L1 caches: what a process restart does.
func VerifResetGlobals() {
	globalL1Locker.Lock()
	globalL1CacheRegistry = make(map[sop.L2CacheType]*L1Cache)
	globalL1Locker.Unlock()
}
