//go:build verif

package cache

import "github.com/sharedcode/sop"

// VerifResetGlobals forgets the process-wide L1 caches: what a process restart does.
func VerifResetGlobals() {
	globalL1Locker.Lock()
	globalL1CacheRegistry = make(map[sop.L2CacheType]*L1Cache)
	globalL1Locker.Unlock()
}

// VerifSwapGlobals installs m as the process-wide L1 cache registry and returns the one
// that was installed: harnesses keep one registry per modelled OS process.
func VerifSwapGlobals(m map[sop.L2CacheType]*L1Cache) map[sop.L2CacheType]*L1Cache {
	globalL1Locker.Lock()
	defer globalL1Locker.Unlock()
	old := globalL1CacheRegistry
	if m == nil {
		m = make(map[sop.L2CacheType]*L1Cache)
	}
	globalL1CacheRegistry = m
	return old
}
