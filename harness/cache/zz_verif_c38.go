//go:build verif

package cache

import (
	"context"
	"time"

	"github.com/sharedcode/sop"
	"github.com/sharedcode/sop/btree"
	"github.com/sharedcode/sop/zzvf"
)

type vfNode = btree.Node[int, []byte]

// vfL2 is an L2 cache model for node structs: SetStruct keeps a deep copy (the real caches
// serialise), GetStruct deep-copies into the target. Only what L1Cache uses is meaningful.
type vfL2 struct {
	nodes map[string]*vfNode
}

func vfDeepCopy(n *vfNode) *vfNode {
	c := &vfNode{ID: n.ID, ParentID: n.ParentID, Count: n.Count, Version: n.Version}
	c.Slots = make([]btree.Item[int, []byte], len(n.Slots))
	for i, it := range n.Slots {
		c.Slots[i] = it
		if it.Value != nil {
			v := append([]byte{}, (*it.Value)...)
			c.Slots[i].Value = &v
		}
	}
	c.ChildrenIDs = append([]sop.UUID{}, n.ChildrenIDs...)
	return c
}

func (c *vfL2) FormatLockKey(k string) string                                       { return "L" + k }
func (c *vfL2) CreateLockKeys(keys []string) []*sop.LockKey                          { return nil }
func (c *vfL2) CreateLockKeysForIDs(keys []sop.Tuple[string, sop.UUID]) []*sop.LockKey { return nil }
func (c *vfL2) IsLockedTTL(ctx context.Context, d time.Duration, lk []*sop.LockKey) (bool, error) {
	return true, nil
}
func (c *vfL2) Lock(ctx context.Context, d time.Duration, lk []*sop.LockKey) (bool, sop.UUID, error) {
	return true, sop.NilUUID, nil
}
func (c *vfL2) DualLock(ctx context.Context, d time.Duration, lk []*sop.LockKey) (bool, sop.UUID, error) {
	return true, sop.NilUUID, nil
}
func (c *vfL2) IsLocked(ctx context.Context, lk []*sop.LockKey) (bool, error) { return true, nil }
func (c *vfL2) IsLockedByOthers(ctx context.Context, n []string) (bool, error) {
	return false, nil
}
func (c *vfL2) IsLockedByOthersTTL(ctx context.Context, n []string, d time.Duration) (bool, error) {
	return false, nil
}
func (c *vfL2) Unlock(ctx context.Context, lk []*sop.LockKey) error { return nil }
func (c *vfL2) GetType() sop.L2CacheType                            { return sop.InMemory }
func (c *vfL2) Set(ctx context.Context, key, value string, exp time.Duration) error {
	return nil
}
func (c *vfL2) Get(ctx context.Context, key string) (bool, string, error) { return false, "", nil }
func (c *vfL2) GetEx(ctx context.Context, key string, exp time.Duration) (bool, string, error) {
	return false, "", nil
}
func (c *vfL2) IsRestarted(ctx context.Context) bool { return false }
func (c *vfL2) SetStruct(ctx context.Context, key string, value interface{}, exp time.Duration) error {
	if n, ok := value.(*vfNode); ok {
		c.nodes[key] = vfDeepCopy(n)
	}
	return nil
}
func (c *vfL2) SetStructs(ctx context.Context, keys []string, values []interface{}, exp time.Duration) error {
	return nil
}
func (c *vfL2) GetStruct(ctx context.Context, key string, target interface{}) (bool, error) {
	n, ok := c.nodes[key]
	if !ok {
		return false, nil
	}
	*(target.(*vfNode)) = *vfDeepCopy(n)
	return true, nil
}
func (c *vfL2) GetStructEx(ctx context.Context, key string, target interface{}, exp time.Duration) (bool, error) {
	return c.GetStruct(ctx, key, target)
}
func (c *vfL2) GetStructs(ctx context.Context, keys []string, targets []interface{}, exp time.Duration) ([]bool, error) {
	return make([]bool, len(keys)), nil
}
func (c *vfL2) Delete(ctx context.Context, keys []string) (bool, error) { return true, nil }
func (c *vfL2) Ping(ctx context.Context) error                         { return nil }
func (c *vfL2) Clear(ctx context.Context) error                        { return nil }

func vfID(b byte) sop.UUID {
	var id sop.UUID
	id[0], id[15] = 0x5a, b
	return id
}

// VerifC38NodePrivacy: a node is in the cache (put by a commit, fetched from L2, or both);
// a first reader obtains it and changes everything it can reach in place - item keys and
// versions, the count, the children ids, the slot array, the bytes of a value - and never
// writes back. A second and a third reader (L1 hit via GetNode and via GetNodeFromMRU) must
// still read the original node.
func VerifC38NodePrivacy() {
	ctx := context.Background()
	orig := &vfNode{ID: vfID(1), ParentID: vfID(9), Count: 2, Version: 1}
	orig.Slots = make([]btree.Item[int, []byte], 4)
	for i := 0; i < 2; i++ {
		v := zzvf.Bytes("value", 3)
		orig.Slots[i] = btree.Item[int, []byte]{ID: vfID(byte(0x10 + i)), Key: zzvf.Int("key"), Value: &v, Version: 3}
	}
	orig.ChildrenIDs = []sop.UUID{vfID(0x21), vfID(0x22), vfID(0x23)}
	pristine := vfDeepCopy(orig)
	handle := sop.NewHandle(orig.ID)
	handle.Version = 1

	l2 := &vfL2{nodes: map[string]*vfNode{}}
	l1 := NewL1Cache(l2, 2, 4)
	switch zzvf.Choose("how-the-node-got-cached", 3) {
	case 0: // a commit in this process put it in L1 and L2
		l1.SetNode(ctx, orig.ID, orig, time.Minute)
	case 1: // only in the MRU
		l1.SetNodeToMRU(ctx, orig.ID, orig, time.Minute)
	case 2: // only in L2 (another process committed it, or it was evicted from L1)
		l2.SetStruct(ctx, FormatNodeKey(orig.ID.String()), orig, time.Minute)
	}

	// reader 1
	t1 := &vfNode{}
	var got any
	if zzvf.Choose("reader1-path", 2) == 0 {
		got, _ = l1.GetNode(ctx, handle, t1, false, time.Minute)
	} else {
		got = l1.GetNodeFromMRU(handle, t1)
		if got == nil {
			got, _ = l1.GetNode(ctx, handle, t1, false, time.Minute)
		}
	}
	n1, ok := got.(*vfNode)
	zzvf.Assert(ok && n1 != nil, "reader1-gets-the-node")
	if !ok || n1 == nil {
		return
	}
	// in-place changes, never written back
	n1.Count = 7
	n1.Version = 5
	n1.Slots[0].Key = n1.Slots[0].Key + 1
	n1.Slots[1].Version = 9
	n1.Slots[2] = btree.Item[int, []byte]{ID: vfID(0x77), Key: 123}
	n1.ChildrenIDs[0] = vfID(0x66)
	n1.ParentID = vfID(0x55)
	(*n1.Slots[0].Value)[0] ^= 0xff

	check := func(tag string, n *vfNode) {
		zzvf.Assert(n.Count == pristine.Count && n.Version == pristine.Version && n.ParentID == pristine.ParentID, tag+": node-header-unchanged")
		zzvf.Assert(len(n.Slots) == len(pristine.Slots) && len(n.ChildrenIDs) == len(pristine.ChildrenIDs), tag+": slot-and-children-lengths-unchanged")
		if len(n.Slots) != len(pristine.Slots) || len(n.ChildrenIDs) != len(pristine.ChildrenIDs) {
			return
		}
		for i := range n.Slots {
			zzvf.Assert(n.Slots[i].ID == pristine.Slots[i].ID && n.Slots[i].Key == pristine.Slots[i].Key && n.Slots[i].Version == pristine.Slots[i].Version, tag+": items-unchanged")
		}
		for i := range n.ChildrenIDs {
			zzvf.Assert(n.ChildrenIDs[i] == pristine.ChildrenIDs[i], tag+": children-ids-unchanged")
		}
	}
	// reader 2 (GetNode) and reader 3 (GetNodeFromMRU)
	t2 := &vfNode{}
	g2, _ := l1.GetNode(ctx, handle, t2, false, time.Minute)
	n2, ok2 := g2.(*vfNode)
	zzvf.Assert(ok2 && n2 != nil, "reader2-gets-the-node")
	t3 := &vfNode{}
	n3, ok3 := l1.GetNodeFromMRU(handle, t3).(*vfNode)
	zzvf.Assert(ok3 && n3 != nil, "reader3-gets-the-node-from-mru")
	if ok2 && n2 != nil {
		check("reader2", n2)
	}
	if ok3 && n3 != nil {
		check("reader3", n3)
	}
	zzvf.Reach("c38-structure-checked")
	// KF-C38-1: clones copy Item structs whose Value is a pointer, so value storage is shared
	zzvf.Known("KF-C38-1", true)
	if ok2 && n2 != nil && len(n2.Slots) > 0 && n2.Slots[0].Value != nil {
		zzvf.Assert(zzvf.BytesEq(*n2.Slots[0].Value, *pristine.Slots[0].Value), "reader2: value-bytes-unchanged")
	}
	if ok3 && n3 != nil && len(n3.Slots) > 0 && n3.Slots[0].Value != nil {
		zzvf.Assert(zzvf.BytesEq(*n3.Slots[0].Value, *pristine.Slots[0].Value), "reader3: value-bytes-unchanged")
	}
}
