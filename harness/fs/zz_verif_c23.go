//go:build verif

package fs

import (
	"context"

	"github.com/sharedcode/sop"
	"github.com/sharedcode/sop/encoding"
	"github.com/sharedcode/sop/zzvf"
)


// vfWrittenBlock returns a valid registry block holding one symbolic handle (logical id
// fixed so that its ideal slot is vfSlot) written by the real marshal code.
func vfWrittenBlock(prefix string, salt byte) ([]byte, sop.Handle) {
	var h sop.Handle
	h.LogicalID = vfIDForSlot(vfSlot, salt)
	copy(h.PhysicalIDA[:], zzvf.Bytes(prefix+"ida", 16))
	h.Version = zzvf.Int32(prefix + "version")
	zzvf.Assume(h.Version >= 0)
	block := make([]byte, blockSize)
	ba, _ := encoding.NewHandleMarshaler().Marshal(h, make([]byte, 0, sop.HandleSizeInBytes))
	copy(block[vfSlot*sop.HandleSizeInBytes:], ba)
	marshalData(block[:blockSize-4], block)
	return block, h
}

// vfDecodeSlot decodes the handle stored in slot vfSlot of a block.
func vfDecodeSlot(block []byte) (bool, sop.Handle) {
	var h sop.Handle
	b := block[vfSlot*sop.HandleSizeInBytes : (vfSlot+1)*sop.HandleSizeInBytes]
	err := encoding.NewHandleMarshaler().Unmarshal(append([]byte{}, b...), &h)
	return err == nil, h
}

// vfCorrupt xors a solver-chosen mask into one region of the block: the stored handle's
// slot, another slot, or the checksum trailer. The mask is non-zero.
func vfCorrupt(block []byte) {
	var off, n int
	switch zzvf.Choose("corrupt.region", 3) {
	case 0:
		off, n = vfSlot*sop.HandleSizeInBytes, 24 // logical id and part of physical id A
	case 1:
		off, n = 40*sop.HandleSizeInBytes+5, 8 // an empty slot elsewhere in the block
	case 2:
		off, n = blockSize-4, 4
	}
	// the corrupted bytes are given by their new values (not as a mask), so a model found
	// with the checksum as an uninterpreted function means the same thing with the real CRC32
	garbage := zzvf.Bytes("corrupt.bytes", n)
	any := false
	for i := 0; i < n; i++ {
		any = zzvf.Or(any, block[off+i] != garbage[i])
		block[off+i] = garbage[i]
	}
	zzvf.Assume(any)
}

const (
	vfCowAbsent = iota
	vfCowEmpty
	vfCowShort
	vfCowBadChecksum
	vfCowValid
	vfCowStates
)

// VerifC23Corruption: a written block is corrupted (any non-zero mask over a slot or the
// trailer) so that it is invalid by the block format's own rule; the backup file is absent,
// empty, of the wrong length, itself invalid, or valid. Lookups, updates and removals must
// fail with an error unless a valid backup exists, must never return a handle decoded from
// the corrupted block, and must not write the segment file.
func VerifC23Corruption() {
	d := vfNewDisk()
	good, h := vfWrittenBlock("h.", 1)
	// checksum-model hygiene: the checksum of a written block is not the all-zero trailer of an
	// unwritten one (true for CRC32 of these blocks except with probability 2^-32; under the
	// uninterpreted-function model the solver would otherwise pick that value)
	zzvf.Assume(vfStoredCRC(good) != 0)
	bad := append([]byte{}, good...)
	vfCorrupt(bad)
	zzvf.Assume(zzvf.Not(vfBlockValid(bad))) // the statement's premise: checksum does not match
	d.putSeg(vfSegPath(1), bad)

	cow := zzvf.Choose("cow.state", vfCowStates)
	var cowBlock []byte
	switch cow {
	case vfCowEmpty:
		d.putFile(vfCowPath(1, 0), []byte{})
	case vfCowShort:
		d.putFile(vfCowPath(1, 0), append([]byte{}, good[:100]...))
	case vfCowBadChecksum:
		cb := append([]byte{}, good...)
		cb[blockSize-1] ^= 0x5a
		cb[3] ^= zzvf.Byte("cow.flip")
		zzvf.Assume(zzvf.Not(vfBlockValid(cb)))
		d.putFile(vfCowPath(1, 0), cb)
	case vfCowValid:
		cowBlock, _ = vfWrittenBlock("cow.", 1) // an older valid image of the same block
		d.putFile(vfCowPath(1, 0), append([]byte{}, cowBlock...))
	}
	rm := vfNewRegistryMap(1)
	ctx := context.Background()
	before := append([]byte{}, d.getSeg(vfSegPath(1))...)

	op := zzvf.Choose("operation", 3)
	var err error
	var served []sop.Handle
	switch op {
	case 0:
		var res []sop.RegistryPayload[sop.Handle]
		res, err = rm.fetch(ctx, []sop.RegistryPayload[sop.UUID]{{RegistryTable: vfTable, IDs: []sop.UUID{h.LogicalID}}})
		if err == nil && len(res) > 0 {
			served = res[0].IDs
		}
	case 1:
		h2 := h
		h2.Version = h.Version + 1
		err = rm.set(ctx, []sop.RegistryPayload[sop.Handle]{{RegistryTable: vfTable, IDs: []sop.Handle{h2}}})
	case 2:
		err = rm.remove(ctx, []sop.RegistryPayload[sop.UUID]{{RegistryTable: vfTable, IDs: []sop.UUID{h.LogicalID}}})
	}

	if cow == vfCowValid {
		// restored from the backup: the operation works on the backup image
		zzvf.Reach("c23-valid-backup")
		_, hc := vfDecodeSlot(cowBlock)
		switch op {
		case 0:
			zzvf.Assert(err == nil, "valid-backup-lookup-succeeds")
			zzvf.Assert(len(served) == 1, "valid-backup-lookup-returns-one-handle")
			if len(served) == 1 {
				zzvf.Assert(served[0] == hc, "lookup-serves-the-backup-image-not-the-corrupted-block")
			}
			zzvf.Assert(zzvf.BytesEq(d.getSeg(vfSegPath(1)), cowBlock), "segment-restored-from-backup")
		case 1, 2:
			zzvf.Assert(err == nil, "valid-backup-update-succeeds")
			after := d.getSeg(vfSegPath(1))
			zzvf.Assert(vfBlockValid(after), "block-valid-after-update-from-backup")
		}
		return
	}
	// Known finding KF-C23-1: without a valid backup readAndRestoreBlock hands the corrupted
	// block to its caller. The region is exactly "no valid backup"; the valid-backup branch
	// above stays fully checked.
	zzvf.Known("KF-C23-1", true)
	zzvf.Assert(err != nil, "corruption-without-valid-backup-is-an-error")
	zzvf.Assert(len(served) == 0, "no-handle-served-from-corrupted-block")
	zzvf.Assert(d.writes == 0, "corrupted-block-not-overwritten")
	zzvf.Assert(zzvf.BytesEq(d.getSeg(vfSegPath(1)), before), "segment-file-unchanged")
	zzvf.Reach("c23-no-valid-backup")
}
