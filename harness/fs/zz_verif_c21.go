//go:build verif

package fs

import (
	"context"

	"github.com/sharedcode/sop"
	"github.com/sharedcode/sop/zzvf"
)

// vfCollidingID returns an id of block 0 whose ideal slot is one of
// {vfSlot, vfSlot+1} (both alternatives are explored).
func vfCollidingID(name string, salt byte) sop.UUID {
	return vfIDForSlot(vfSlot+zzvf.Choose(name+".slot", 2), salt)
}

func vfPayload(id sop.UUID, step int) sop.Handle {
	var h sop.Handle
	h.LogicalID = id
	copy(h.PhysicalIDA[:], zzvf.Bytes("payload", 16))
	h.Version = int32(step + 1)
	return h
}

// vfSlotOf returns the slot index (in segment seg) holding id, or -1.
func vfSlotOf(d *vfDisk, seg int, id sop.UUID) int {
	b := d.getSeg(vfSegPath(seg))
	if len(b) < blockSize {
		return -1
	}
	for s := 0; s < handlesPerBlock; s++ {
		off := s * sop.HandleSizeInBytes
		same := true
		for i := 0; i < 16; i++ {
			if b[off+i] != id[i] {
				same = false
				break
			}
		}
		if same {
			return s
		}
	}
	return -1
}

func vfSlotEmpty(d *vfDisk, seg, slot int) bool {
	b := d.getSeg(vfSegPath(seg))
	if len(b) < blockSize {
		return true
	}
	off := slot * sop.HandleSizeInBytes
	for i := 0; i < 16; i++ { // a stored handle has a non-zero logical id (byte 0 is 0x5a)
		if b[off+i] != 0 {
			return false
		}
	}
	return true
}

const (
	vfOpAdd = iota
	vfOpSet
	vfOpRemove
)

// vfRegistryHistory runs nOps operations chosen by the engine over nIDs ids that share a
// block and (by solver choice) an ideal slot, from an empty registry (or a full first
// block, which forces overflow into a second segment file), each operation in a fresh
// process (cold lookups), and compares every lookup with a map model.
func vfRegistryHistory(nIDs, nOps int, fullFirstBlock bool) {
	d := vfNewDisk()
	ctx := context.Background()
	ids := make([]sop.UUID, nIDs)
	for i := range ids {
		ids[i] = vfCollidingID("id", byte(i+1))
	}
	if fullFirstBlock {
		// every slot of block 0 in segment 1 holds some other id
		block := make([]byte, blockSize)
		for s := 0; s < handlesPerBlock; s++ {
			h := sop.NewHandle(vfIDForSlot(s, 0x77))
			ba, _ := vfMarshal(h)
			copy(block[s*sop.HandleSizeInBytes:], ba)
		}
		marshalData(block[:blockSize-4], block)
		d.putSeg(vfSegPath(1), block)
	}
	model := map[int]sop.Handle{}
	known := false // an operation hit the recorded finding KF-C21-1's precondition
	ideal := func(i int) int { _, l := ids[i].Split(); return int(l % handlesPerBlock) }

	for step := 0; step < nOps; step++ {
		i := zzvf.Choose("id", nIDs)
		_, present := model[i]
		op := vfOpAdd
		if present {
			op = vfOpSet + zzvf.Choose("set-or-remove", 2)
		}
		rm := vfNewRegistryMap(1)
		var err error
		switch op {
		case vfOpAdd:
			h := vfPayload(ids[i], step)
			err = rm.add(ctx, []sop.RegistryPayload[sop.Handle]{{RegistryTable: vfTable, IDs: []sop.Handle{h}}})
			model[i] = h
		case vfOpSet, vfOpRemove:
			// KF-C21-1: the id lives in a displaced slot and a slot between its ideal slot and
			// its own has been vacated (write lookups stop at the first free slot)
			seg := 1
			if fullFirstBlock {
				seg = 2 // block 0 of the first segment is full: the ids live in the second segment file
			}
			if at := vfSlotOf(d, seg, ids[i]); at >= 0 && at != ideal(i) {
				for sl := ideal(i); sl != at; sl = (sl + 1) % handlesPerBlock {
					if vfSlotEmpty(d, seg, sl) {
						known = true
					}
				}
			}
			if op == vfOpSet {
				h := vfPayload(ids[i], step)
				err = rm.set(ctx, []sop.RegistryPayload[sop.Handle]{{RegistryTable: vfTable, IDs: []sop.Handle{h}}})
				model[i] = h
			} else {
				err = rm.remove(ctx, []sop.RegistryPayload[sop.UUID]{{RegistryTable: vfTable, IDs: []sop.UUID{ids[i]}}})
				delete(model, i)
			}
		}
		zzvf.Known("KF-C21-1", known)
		zzvf.Assert(err == nil, "operation-on-valid-precondition-succeeds")
		if err != nil {
			return
		}
		// cold lookup of every id against the model
		for j := range ids {
			res, ferr := vfNewRegistryMap(1).fetch(ctx, []sop.RegistryPayload[sop.UUID]{{RegistryTable: vfTable, IDs: []sop.UUID{ids[j]}}})
			zzvf.Assert(ferr == nil, "lookup-no-error")
			if ferr != nil {
				return
			}
			var got []sop.Handle
			if len(res) > 0 {
				got = res[0].IDs
			}
			if want, ok := model[j]; ok {
				zzvf.Assert(len(got) == 1, "present-id-found")
				if len(got) == 1 {
					zzvf.Assert(zzvf.Eq(got[0], want), "lookup-returns-last-written-handle")
				}
			} else {
				zzvf.Assert(len(got) == 0, "absent-or-removed-id-not-found")
			}
		}
	}
	zzvf.Reach("c21-history-end")
}

func VerifC21History() {
	n := 4
	if zzvf.Thorough() {
		n = 5
	}
	vfRegistryHistory(3, n, false)
}

func VerifC21Overflow() {
	n := 3
	if zzvf.Thorough() {
		n = 4
	}
	vfRegistryHistory(2, n, true)
}
