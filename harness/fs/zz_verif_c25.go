//go:build verif

package fs

import (
	"context"
	"errors"
	"hash/crc32"
	"os"
	"strings"
	"sync"

	"github.com/klauspost/reedsolomon"
	"github.com/sharedcode/sop"
	"github.com/sharedcode/sop/zzvf"
)

// vfMD5 stands in for md5.Sum under the engine: a collision-free checksum (the engine
// models crc32.ChecksumIEEE as an injective uninterpreted function) spread over 16 bytes.
func vfMD5(data []byte) [16]byte {
	c := crc32.ChecksumIEEE(data)
	var r [16]byte
	r[0], r[1], r[2], r[3] = byte(c), byte(c>>8), byte(c>>16), byte(c>>24)
	r[4] = byte(len(data))
	return r
}

// vfECFiles is the drives of an erasure-coded blob store: files in memory; writes to a
// failed drive return an error.
type vfECFiles struct {
	mu        sync.Mutex // natively the blob store reads and writes shards from several goroutines
	files     map[string][]byte
	failDrive []bool
}

func vfDriveOf(name string) int {
	// paths are /drvN/...
	if len(name) > 4 && strings.HasPrefix(name, "/drv") {
		return int(name[4] - '0')
	}
	return -1
}

var vfErrDrive = errors.New("vf: drive failure")
var vfErrNoFile = errors.New("vf: no such file")

func (f *vfECFiles) WriteFile(ctx context.Context, name string, data []byte, perm os.FileMode) error {
	if d := vfDriveOf(name); d >= 0 && d < len(f.failDrive) && f.failDrive[d] {
		return vfErrDrive
	}
	f.mu.Lock()
	f.files[name] = append([]byte(nil), data...)
	f.mu.Unlock()
	return nil
}
func (f *vfECFiles) ReadFile(ctx context.Context, name string) ([]byte, error) {
	f.mu.Lock()
	defer f.mu.Unlock()
	b, ok := f.files[name]
	if !ok {
		return nil, vfErrNoFile
	}
	return append([]byte(nil), b...), nil
}
func (f *vfECFiles) Remove(ctx context.Context, name string) error {
	f.mu.Lock()
	delete(f.files, name)
	f.mu.Unlock()
	return nil
}
func (f *vfECFiles) Stat(ctx context.Context, path string) (os.FileInfo, error) {
	return nil, vfErrNoFile
}
func (f *vfECFiles) Exists(ctx context.Context, path string) bool {
	f.mu.Lock()
	defer f.mu.Unlock()
	_, ok := f.files[path]
	return ok
}
func (f *vfECFiles) RemoveAll(ctx context.Context, path string) error { return nil }
func (f *vfECFiles) MkdirAll(ctx context.Context, path string, perm os.FileMode) error {
	if d := vfDriveOf(path); d >= 0 && d < len(f.failDrive) && f.failDrive[d] {
		return vfErrDrive
	}
	return nil
}
func (f *vfECFiles) ReadDir(ctx context.Context, sourceDir string) ([]os.DirEntry, error) {
	return nil, nil
}

var vfNoRecover = false

type vfEC struct {
	d, p  int
	files *vfECFiles
	bs    sop.BlobStore
	id    sop.UUID
	names []string // shard file names by shard index
	paddingByteHit bool // some shard's padding-count metadata byte was corrupted
	metaHit        bool // some shard's metadata prefix was corrupted
}

var vfECShapes = [][2]int{{1, 1}, {2, 1}, {2, 2}}

func vfNewEC(repair bool) *vfEC {
	shapes := vfECShapes
	if !zzvf.Thorough() {
		shapes = shapes[1:]
		if repair {
			shapes = shapes[:1] // quick tier of the repair check: (2,1) only
		}
	} else if repair {
		shapes = shapes[:2] // thorough tier of the repair check: (1,1) and (2,1)
	}
	sh := shapes[zzvf.Choose("data-parity", len(shapes))]
	e := &vfEC{d: sh[0], p: sh[1]}
	n := e.d + e.p
	drives := make([]string, n)
	for i := range drives {
		drives[i] = "/drv" + string(rune('0'+i))
	}
	e.files = &vfECFiles{files: map[string][]byte{}, failDrive: make([]bool, n)}
	bs, err := NewBlobStoreWithEC(nil, e.files, map[string]sop.ErasureCodingConfig{
		"": {DataShardsCount: e.d, ParityShardsCount: e.p, BaseFolderPathsAcrossDrives: drives, RepairCorruptedShards: repair},
	})
	if err != nil {
		panic(err)
	}
	e.bs = bs
	e.id = sop.UUID{0xab, 0xcd, 15: 7}
	return e
}

// put stores a blob of a solver-chosen content and engine-chosen size.
func (e *vfEC) put() ([]byte, error) {
	sizes := []int{3, 4}
	if zzvf.Thorough() {
		sizes = []int{1, 3, 4}
	}
	data := zzvf.Bytes("blob", sizes[zzvf.Choose("blob.len", len(sizes))])
	err := e.bs.Add(context.Background(), []sop.BlobsPayload[sop.KeyValuePair[sop.UUID, []byte]]{
		{BlobTable: "tb", Blobs: []sop.KeyValuePair[sop.UUID, []byte]{{Key: e.id, Value: append([]byte(nil), data...)}}},
	})
	e.names = make([]string, e.d+e.p)
	for name := range e.files.files {
		// file names end in _<shard index>
		e.names[int(name[len(name)-1]-'0')] = name
	}
	return data, err
}

const (
	dmgNone = iota
	dmgMissing
	dmgCorruptData // one shard byte replaced by a different value
	dmgTruncTail   // last byte cut off
	dmgTruncShort  // cut to less than the metadata prefix
	dmgCorruptMeta // one byte of the 17 byte metadata prefix replaced
	dmgKinds
)

// damage applies one kind of damage to the file of shard i; it reports whether the file
// was changed.
func (e *vfEC) damage(i, kind int, tag string) bool {
	name := e.names[i]
	b, ok := e.files.files[name]
	if !ok || kind == dmgNone {
		return false
	}
	switch kind {
	case dmgMissing:
		delete(e.files.files, name)
	case dmgCorruptData:
		pos := 17 // first shard byte
		v := zzvf.Byte(tag + ".byte")
		zzvf.Assume(v != b[pos])
		b[pos] = v
	case dmgTruncTail:
		e.files.files[name] = b[:len(b)-1]
	case dmgTruncShort:
		e.files.files[name] = b[:5]
	case dmgCorruptMeta:
		pos := zzvf.Choose(tag+".pos", 2) // padding count byte, first checksum byte
		if pos == 0 {
			e.paddingByteHit = true
		}
		e.metaHit = true
		v := zzvf.Byte(tag + ".byte")
		zzvf.Assume(v != b[pos])
		b[pos] = v
	}
	return true
}

// consistent reports whether all shard files are present with equal length and their shard
// bytes pass Reed-Solomon verification.
func (e *vfEC) consistent() bool {
	shards := make([][]byte, e.d+e.p)
	for i, n := range e.names {
		b, ok := e.files.files[n]
		if !ok || len(b) <= 17 {
			return false
		}
		shards[i] = b[17:]
		if len(shards[i]) != len(shards[0]) {
			return false
		}
	}
	enc, err := reedsolomon.New(e.d, e.p)
	if err != nil {
		return false
	}
	ok, _ := enc.Verify(shards)
	return ok
}

func (e *vfEC) get() (data []byte, err error, panicked bool) {
	defer func() {
		if !vfNoRecover {
			if r := recover(); r != nil {
				panicked = true
				zzvf.Observe("panic", r)
			}
		}
	}()
	data, err = e.bs.GetOne(context.Background(), "tb", e.id)
	return
}

// VerifC25Read: blob stored with (d,p) in {(1,1),(2,1),(2,2)}, 1, 3 or 4 solver-chosen bytes;
// then every shard file is left alone, removed, corrupted in one byte (data or metadata, the
// new value is a solver variable) or truncated. With at most p damaged shards the read
// returns exactly the stored bytes; with more it returns an error or the right bytes; it
// never panics.
func VerifC25Read() {
	e := vfNewEC(false)
	data, err := e.put()
	zzvf.Assert(err == nil, "write-without-failures-succeeds")
	damaged := 0
	for i := 0; i < e.d+e.p; i++ {
		kinds := dmgKinds
		if i == 3 && !zzvf.Thorough() {
			kinds = 2 // quick tier: the fourth shard is only left alone or removed
		}
		if e.damage(i, zzvf.Choose("damage", kinds), "shard"+string(rune('0'+i))) {
			damaged++
		}
	}
	// KF-C25-1: the padding-count byte of the shard metadata is not covered by the checksum
	zzvf.Known("KF-C25-1", e.paddingByteHit)
	// KF-C25-2: damage in more than p shards that leaves the shard set Reed-Solomon consistent
	zzvf.Known("KF-C25-2", damaged > e.p && e.consistent())
	got, gerr, panicked := e.get()
	zzvf.Assert(!panicked, "read-does-not-panic")
	if panicked {
		return
	}
	same := gerr == nil && len(got) == len(data) && zzvf.BytesEq(got, data)
	if damaged <= e.p {
		zzvf.Assert(gerr == nil, "read-succeeds-with-damage-within-parity")
		zzvf.Assert(same, "read-returns-the-stored-bytes")
		zzvf.Reach("c25-within-parity")
	} else {
		zzvf.Assert(zzvf.Or(gerr != nil, same), "beyond-parity-error-or-right-bytes")
		zzvf.Reach("c25-beyond-parity")
	}
}

// VerifC25Write: any subset of drives fails during the write: Add succeeds exactly when at
// most p shard writes fail, and a successful write can be read back.
func VerifC25Write() {
	e := vfNewEC(false)
	failed := 0
	for i := range e.files.failDrive {
		if zzvf.Choose("drive-fails", 2) == 1 {
			e.files.failDrive[i] = true
			failed++
		}
	}
	data, err := e.put()
	if failed <= e.p {
		zzvf.Assert(err == nil, "write-tolerates-failures-within-parity")
		got, gerr, panicked := e.get()
		zzvf.Assert(!panicked, "tolerated-write-read-does-not-panic")
		zzvf.Assert(gerr == nil, "tolerated-write-reads-back-without-error")
		if !panicked && gerr == nil {
			zzvf.Assert(len(got) == len(data) && zzvf.BytesEq(got, data), "tolerated-write-reads-back")
		}
	} else {
		zzvf.Assert(err != nil, "write-fails-beyond-parity")
	}
	zzvf.Reach("c25-write-end")
}

// VerifC26Repair: with repair enabled, a read of a blob with damage within parity rewrites
// the damaged shard files: afterwards every shard file equals the one originally written,
// and the blob survives p new removals.
func VerifC26Repair() {
	e := vfNewEC(true)
	data, err := e.put()
	zzvf.Assert(err == nil, "write")
	orig := map[string][]byte{}
	for n, b := range e.files.files {
		orig[n] = append([]byte(nil), b...)
	}
	damaged := 0
	for i := 0; i < e.d+e.p; i++ {
		if damaged < e.p && e.damage(i, zzvf.Choose("damage", dmgKinds), "shard"+string(rune('0'+i))) {
			damaged++
		}
	}
	zzvf.Assume(damaged > 0)
	zzvf.Known("KF-C26-1", e.paddingByteHit)
	// KF-C26-2: a damaged metadata prefix is not noticed while the shard bytes verify
	zzvf.Known("KF-C26-2", e.metaHit)
	got, gerr, panicked := e.get()
	zzvf.Assert(!panicked, "read-does-not-panic")
	if panicked {
		return
	}
	zzvf.Assert(gerr == nil && len(got) == len(data) && zzvf.BytesEq(got, data), "repairing-read-returns-the-stored-bytes")
	if gerr != nil {
		return
	}
	for n, b := range orig {
		cur, ok := e.files.files[n]
		zzvf.Assert(ok && len(cur) == len(b), "shard-file-restored")
		if ok && len(cur) == len(b) {
			zzvf.Assert(zzvf.BytesEq(cur, b), "shard-file-content-restored")
		}
	}
	// p new failures: remove p shards chosen by the engine
	removed := 0
	for i := 0; i < e.d+e.p && removed < e.p; i++ {
		if zzvf.Choose("then-remove", 2) == 1 {
			e.damage(i, dmgMissing, "x")
			removed++
		}
	}
	got, gerr, panicked = e.get()
	zzvf.Assert(!panicked && gerr == nil && len(got) == len(data) && zzvf.BytesEq(got, data), "repaired-blob-tolerates-p-new-failures")
	zzvf.Reach("c26-end")
}
