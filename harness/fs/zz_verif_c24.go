//go:build verif

package fs

import (
	"github.com/sharedcode/sop"
	"github.com/sharedcode/sop/zzvf"
)

func verifSymUUID(name string) sop.UUID {
	var id sop.UUID
	copy(id[:], zzvf.Bytes(name, 16))
	return id
}

// VerifC24Layout: for every id and every hash modulus in [1, MaximumModValue] the block
// offset is block aligned and inside the segment file, the slot lies inside the data part
// of the block, and distinct slots never overlap each other or the checksum trailer.
func VerifC24Layout() {
	mod := zzvf.Int("hashMod")
	zzvf.Assume(mod >= 1)
	zzvf.Assume(mod <= MaximumModValue)
	hm := &hashmap{hashModValue: mod}
	id := verifSymUUID("id")
	bo, ho := hm.getBlockOffsetAndHandleInBlockOffset(id)
	zzvf.Assert(handlesPerBlock*sop.HandleSizeInBytes+4 <= blockSize, "slots-plus-crc-fit-block")
	zzvf.Assert(bo >= 0, "block-offset-nonneg")
	zzvf.Assert(bo%blockSize == 0, "block-offset-aligned")
	zzvf.Assert(bo+blockSize <= hm.getSegmentFileSize(), "block-inside-segment")
	zzvf.Assert(ho >= 0, "slot-offset-nonneg")
	zzvf.Assert(ho%sop.HandleSizeInBytes == 0, "slot-offset-multiple-of-62")
	zzvf.Assert(ho+sop.HandleSizeInBytes <= blockSize-4, "slot-before-crc-trailer")
	// a second id: same slot index or disjoint byte ranges
	id2 := verifSymUUID("id2")
	_, ho2 := hm.getBlockOffsetAndHandleInBlockOffset(id2)
	disjoint := zzvf.Or(ho+sop.HandleSizeInBytes <= ho2, ho2+sop.HandleSizeInBytes <= ho)
	zzvf.Assert(zzvf.Or(ho == ho2, disjoint), "slots-equal-or-disjoint")
	zzvf.Reach("c24-layout-end")
}

// VerifC24SlotWrite: the merge step of writeBlockRegionPayload (slot copy + marshalData)
// on a block changes only the bytes of the written slot and the trailer. The slot index is
// any of the 66 (one path each); the old contents of the slot and of both neighbours and
// the 62 new bytes are symbolic; the rest of the block is zero.
func VerifC24SlotWrite() {
	slot := zzvf.Choose("slot", handlesPerBlock)
	block := make([]byte, blockSize)
	old := zzvf.Bytes("old3slots", 3*sop.HandleSizeInBytes)
	lo := (slot - 1) * sop.HandleSizeInBytes
	for i, b := range old {
		p := lo + i
		if p >= 0 && p < handlesPerBlock*sop.HandleSizeInBytes {
			block[p] = b
		}
	}
	before := make([]byte, blockSize)
	copy(before, block)
	data := zzvf.Bytes("newHandle", sop.HandleSizeInBytes)
	off := slot * sop.HandleSizeInBytes
	copy(block[off:off+sop.HandleSizeInBytes], data)
	marshalData(block[:blockSize-4], block)
	slotOK, othersOK := true, true
	for i := 0; i < blockSize-4; i++ {
		if i >= off && i < off+sop.HandleSizeInBytes {
			slotOK = zzvf.And(slotOK, block[i] == data[i-off])
		} else {
			othersOK = zzvf.And(othersOK, block[i] == before[i])
		}
	}
	zzvf.Assert(slotOK, "slot-holds-new-bytes")
	zzvf.Assert(othersOK, "other-bytes-unchanged")
	zzvf.Reach("c24-slotwrite-end")
}
