//go:build verif

package fs

// KIT-BLK: the real hashmap / registryMap / COW / marshalData code runs against an
// in-memory disk. Segment files (direct I/O) and ordinary files (FileIO: .cow backups)
// are byte slices whose contents may be symbolic. Every I/O operation is counted so a
// harness can crash the "process" at a solver-chosen operation, with a torn block write.
//
// The engine redirects (checks/*.json "stubs"): fs.NewFileIO -> vfNewFileIO,
// (*fileDirectIO).fileExists/getFileSize -> vfFileExists/vfGetFileSize,
// (*os.File).Name/Truncate -> vfFileName/vfTruncate, os.IsNotExist -> vfIsNotExist.

import (
	"context"
	"errors"
	"hash/crc32"
	"io"
	"os"
	"path/filepath"
	"time"

	"github.com/sharedcode/sop"
	"github.com/sharedcode/sop/encoding"
	"github.com/sharedcode/sop/zzvf"
)

type vfDisk struct {
	seg     map[string][]byte // direct-I/O files by full path (symbolic mode)
	names   map[*os.File]string
	files   map[string][]byte // FileIO files by full path (symbolic mode)
	crash   int               // which I/O step of the next registry write kills the process (vfCrash*)
	tornLen int               // bytes of the block write that reach the disk when it is the crash point (may be symbolic)
	cowLen  int               // bytes of the backup file that reach the disk when its write is the crash point
	writes  int               // completed segment writes
	base    string            // stores base folder: "/d" in the engine, a scratch directory natively
	failUnder string          // when set, opening a direct-I/O file under this folder fails (a failed drive)
}

func vfMarshal(h sop.Handle) ([]byte, error) {
	return encoding.NewHandleMarshaler().Marshal(h, make([]byte, 0, sop.HandleSizeInBytes))
}

const vfSlot = 7 // slot of the handle the single-handle harnesses store (any slot behaves alike: C24)

var vfD *vfDisk
var vfErrNotExist = errors.New("vf: no such file or directory")

// vfNewDisk creates the disk. Under the engine everything is in memory; in a native replay
// the same harness runs against real files in a scratch directory (real FileIO, and this
// type as the DirectIO doing ordinary file I/O), so counterexamples replay against the
// real file system.
func vfNewDisk() *vfDisk {
	vfD = &vfDisk{seg: map[string][]byte{}, names: map[*os.File]string{}, files: map[string][]byte{}, base: "/d"}
	if !zzvf.Symbolic() {
		dir, err := os.MkdirTemp("", "vfdisk")
		if err != nil {
			panic(err)
		}
		vfD.base = dir
	}
	DirectIOSim = vfD
	return vfD
}

// Crash points of one registry block write (createCow, block write, deleteCow).
const (
	vfCrashNone = iota
	vfCrashCowWrite   // the backup file write is cut after cowLen bytes
	vfCrashBlockWrite // the block write is cut after tornLen bytes
	vfCrashCowRemove  // the process dies after the block write, before the backup is removed
)

func (d *vfDisk) putSeg(path string, b []byte) {
	if zzvf.Symbolic() {
		d.seg[path] = b
		return
	}
	os.MkdirAll(filepath.Dir(path), 0o755)
	if err := os.WriteFile(path, b, 0o644); err != nil {
		panic(err)
	}
}

func (d *vfDisk) getSeg(path string) []byte {
	if zzvf.Symbolic() {
		return d.seg[path]
	}
	b, _ := os.ReadFile(path)
	return b
}

func (d *vfDisk) putFile(path string, b []byte) {
	if zzvf.Symbolic() {
		d.files[path] = b
		return
	}
	os.MkdirAll(filepath.Dir(path), 0o755)
	if err := os.WriteFile(path, b, 0o644); err != nil {
		panic(err)
	}
}

func (d *vfDisk) hasFile(path string) bool {
	if zzvf.Symbolic() {
		_, ok := d.files[path]
		return ok
	}
	_, err := os.Stat(path)
	return err == nil
}

func (d *vfDisk) Open(ctx context.Context, filename string, flag int, permission os.FileMode) (*os.File, error) {
	if d.failUnder != "" && len(filename) >= len(d.failUnder) && filename[:len(d.failUnder)] == d.failUnder {
		return nil, errors.New("vf: drive failure")
	}
	if !zzvf.Symbolic() {
		os.MkdirAll(filepath.Dir(filename), 0o755)
		return os.OpenFile(filename, flag, 0o644)
	}
	if _, ok := d.seg[filename]; !ok {
		if flag&os.O_CREATE == 0 {
			return nil, vfErrNotExist
		}
		d.seg[filename] = []byte{}
	}
	f := new(os.File)
	d.names[f] = filename
	return f, nil
}

func (d *vfDisk) WriteAt(ctx context.Context, file *os.File, block []byte, offset int64) (int, error) {
	if !zzvf.Symbolic() {
		if d.crash == vfCrashBlockWrite {
			file.WriteAt(block[:d.tornLen], offset)
			zzvf.Crash()
		}
		n, err := file.WriteAt(block, offset)
		d.writes++
		if d.crash == vfCrashCowRemove {
			zzvf.Crash() // natively the backup removal cannot be intercepted: die right after the write
		}
		return n, err
	}
	name := d.names[file]
	data := d.seg[name]
	if int(offset)+len(block) > len(data) {
		nd := make([]byte, int(offset)+len(block))
		copy(nd, data)
		data = nd
	}
	if d.crash == vfCrashBlockWrite {
		// torn write: only the first tornLen bytes reach the disk, then the process dies.
		// tornLen may be symbolic: each byte is new-or-old by comparison, no case split.
		for i := range block {
			data[int(offset)+i] = zzvf.IteByte(i < d.tornLen, block[i], data[int(offset)+i])
		}
		d.seg[name] = data
		zzvf.Crash()
	}
	copy(data[offset:], block)
	d.seg[name] = data
	d.writes++
	return len(block), nil
}

func (d *vfDisk) ReadAt(ctx context.Context, file *os.File, block []byte, offset int64) (int, error) {
	if !zzvf.Symbolic() {
		return file.ReadAt(block, offset)
	}
	data := d.seg[d.names[file]]
	if int(offset) >= len(data) {
		return 0, io.EOF
	}
	n := copy(block, data[offset:])
	if n < len(block) {
		return n, io.EOF
	}
	return n, nil
}

func (d *vfDisk) Close(file *os.File) error {
	if !zzvf.Symbolic() {
		return file.Close()
	}
	return nil
}

type vfFileIO struct{ d *vfDisk }

func vfNewFileIO() FileIO { return vfFileIO{vfD} }

func (f vfFileIO) WriteFile(ctx context.Context, name string, data []byte, perm os.FileMode) error {
	if f.d.crash == vfCrashCowWrite {
		// a crashed WriteFile leaves a prefix of the data
		n := f.d.cowLen
		if n > len(data) {
			n = len(data)
		}
		f.d.files[name] = append([]byte{}, data[:n]...)
		zzvf.Crash()
	}
	f.d.files[name] = append([]byte{}, data...)
	return nil
}
func (f vfFileIO) ReadFile(ctx context.Context, name string) ([]byte, error) {
	b, ok := f.d.files[name]
	if !ok {
		return nil, vfErrNotExist
	}
	return append([]byte{}, b...), nil
}
func (f vfFileIO) Remove(ctx context.Context, name string) error {
	if _, ok := f.d.files[name]; !ok {
		return vfErrNotExist
	}
	if f.d.crash == vfCrashCowRemove {
		zzvf.Crash() // died before the removal happened
	}
	delete(f.d.files, name)
	return nil
}
func (f vfFileIO) Stat(ctx context.Context, path string) (os.FileInfo, error) {
	if f.Exists(ctx, path) {
		return simFileInfo{}, nil
	}
	return nil, vfErrNotExist
}
func (f vfFileIO) Exists(ctx context.Context, path string) bool {
	if _, ok := f.d.files[path]; ok {
		return true
	}
	return vfIsDir(path)
}
func vfIsDir(path string) bool { return len(path) > 0 && path[len(path)-1] != 'w' } // anything not ending in .cow is a directory that exists
func (f vfFileIO) RemoveAll(ctx context.Context, path string) error                 { return nil }
func (f vfFileIO) MkdirAll(ctx context.Context, path string, perm os.FileMode) error { return nil }
func (f vfFileIO) ReadDir(ctx context.Context, sourceDir string) ([]os.DirEntry, error) {
	return nil, nil
}

func vfFileExists(fio *fileDirectIO, path string) bool { _, ok := vfD.seg[path]; return ok }
func vfGetFileSize(fio *fileDirectIO, path string) (int64, error) {
	b, ok := vfD.seg[path]
	if !ok {
		return 0, vfErrNotExist
	}
	return int64(len(b)), nil
}
func vfFileName(f *os.File) string { return vfD.names[f] }
func vfTruncate(f *os.File, size int64) error {
	name := vfD.names[f]
	data := vfD.seg[name]
	nd := make([]byte, size)
	copy(nd, data)
	vfD.seg[name] = nd
	return nil
}
func vfIsNotExist(err error) bool { return err == vfErrNotExist }

// vfLocks is a lock service that always grants (single process, no contention): the real
// lock services are C28's subject.
type vfLocks struct{}

func (vfLocks) FormatLockKey(k string) string { return "L" + k }
func (c vfLocks) CreateLockKeys(keys []string) []*sop.LockKey {
	r := make([]*sop.LockKey, len(keys))
	for i, k := range keys {
		r[i] = &sop.LockKey{Key: c.FormatLockKey(k), LockID: sop.NewUUID()}
	}
	return r
}
func (c vfLocks) CreateLockKeysForIDs(keys []sop.Tuple[string, sop.UUID]) []*sop.LockKey {
	r := make([]*sop.LockKey, len(keys))
	for i, k := range keys {
		r[i] = &sop.LockKey{Key: c.FormatLockKey(k.First), LockID: k.Second}
	}
	return r
}
func (vfLocks) IsLockedTTL(ctx context.Context, d time.Duration, lk []*sop.LockKey) (bool, error) {
	return true, nil
}
func (vfLocks) Lock(ctx context.Context, d time.Duration, lk []*sop.LockKey) (bool, sop.UUID, error) {
	for _, k := range lk {
		k.IsLockOwner = true
	}
	return true, sop.NilUUID, nil
}
func (c vfLocks) DualLock(ctx context.Context, d time.Duration, lk []*sop.LockKey) (bool, sop.UUID, error) {
	return c.Lock(ctx, d, lk)
}
func (vfLocks) IsLocked(ctx context.Context, lk []*sop.LockKey) (bool, error) { return true, nil }
func (vfLocks) IsLockedByOthers(ctx context.Context, names []string) (bool, error) {
	return false, nil
}
func (vfLocks) IsLockedByOthersTTL(ctx context.Context, names []string, d time.Duration) (bool, error) {
	return false, nil
}
func (vfLocks) Unlock(ctx context.Context, lk []*sop.LockKey) error { return nil }
func (vfLocks) GetType() sop.L2CacheType                            { return sop.InMemory }
func (vfLocks) Set(ctx context.Context, key string, value string, expiration time.Duration) error {
	return nil
}
func (vfLocks) Get(ctx context.Context, key string) (bool, string, error) { return false, "", nil }
func (vfLocks) GetEx(ctx context.Context, key string, expiration time.Duration) (bool, string, error) {
	return false, "", nil
}
func (vfLocks) IsRestarted(ctx context.Context) bool { return false }
func (vfLocks) SetStruct(ctx context.Context, key string, value interface{}, expiration time.Duration) error {
	return nil
}
func (vfLocks) SetStructs(ctx context.Context, keys []string, values []interface{}, expiration time.Duration) error {
	return nil
}
func (vfLocks) GetStruct(ctx context.Context, key string, target interface{}) (bool, error) {
	return false, nil
}
func (vfLocks) GetStructEx(ctx context.Context, key string, target interface{}, expiration time.Duration) (bool, error) {
	return false, nil
}
func (vfLocks) GetStructs(ctx context.Context, keys []string, targets []interface{}, expiration time.Duration) ([]bool, error) {
	return make([]bool, len(keys)), nil
}
func (vfLocks) Delete(ctx context.Context, keys []string) (bool, error) { return true, nil }
func (vfLocks) Ping(ctx context.Context) error                         { return nil }
func (vfLocks) Clear(ctx context.Context) error                        { return nil }

const vfTable = "t"

func vfSegPath(i int) string {
	return vfD.base + "/" + vfTable + "/" + vfTable + "-" + string(rune('0'+i)) + registryFileExtension
}
func vfCowPath(i int, blockOffset int64) string {
	s := vfD.base + "/" + vfTable + "/" + vfTable + "-" + string(rune('0'+i)) + "_"
	return s + vfItoa(blockOffset) + ".cow"
}
func vfItoa(n int64) string {
	if n == 0 {
		return "0"
	}
	var b []byte
	for n > 0 {
		b = append([]byte{byte('0' + n%10)}, b...)
		n /= 10
	}
	return string(b)
}

// vfNewRegistryMap builds a registryMap ("new process": no open file handles) over the disk.
func vfNewRegistryMap(hashMod int) *registryMap {
	rt := &replicationTracker{storesBaseFolders: []string{vfD.base}}
	rt.ActiveFolderToggler = true
	return newRegistryMap(true, hashMod, rt, vfLocks{})
}

// vfNewRegistryMapMode is vfNewRegistryMap with the access mode chosen by the caller (a
// read-only map is what a reader transaction opens).
func vfNewRegistryMapMode(hashMod int, readWrite bool) *registryMap {
	rt := &replicationTracker{storesBaseFolders: []string{vfD.base}}
	rt.ActiveFolderToggler = true
	return newRegistryMap(readWrite, hashMod, rt, vfLocks{})
}

// vfIDForSlot returns a concrete id that hashes to block 0 (hashMod 1) and the given slot.
func vfIDForSlot(slot int, salt byte) sop.UUID {
	var id sop.UUID
	id[0] = 0x5a
	id[1] = salt
	// low 64 bits = slot + 66*salt  (mod 66 == slot)
	low := uint64(slot) + 66*uint64(salt)
	for i := 0; i < 8; i++ {
		id[15-i] = byte(low >> (8 * uint(i)))
	}
	return id
}

func vfCRC(block []byte) uint32 { return crc32.ChecksumIEEE(block[:blockSize-4]) }

// vfStoredCRC reads the trailer.
func vfStoredCRC(block []byte) uint32 {
	t := block[blockSize-4:]
	return uint32(t[0]) | uint32(t[1])<<8 | uint32(t[2])<<16 | uint32(t[3])<<24
}

func vfAllZero(b []byte) bool {
	res := true
	for _, c := range b {
		res = zzvf.And(res, c == 0)
	}
	return res
}

// vfBlockValid is the validity rule of the registry block format, stated independently of
// unmarshalData: an all-zero block is valid (sparse), otherwise the trailer must equal the
// checksum of the data part.
func vfBlockValid(block []byte) bool {
	return zzvf.Or(vfAllZero(block), vfStoredCRC(block) == vfCRC(block))
}
