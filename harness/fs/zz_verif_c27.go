//go:build verif

package fs

import (
	"context"

	"github.com/sharedcode/sop"
	"github.com/sharedcode/sop/cache"
	"github.com/sharedcode/sop/zzvf"
)

// vfReplicatedRegistry builds the file-system registry over an active and a passive base
// folder of the model disk.
func vfReplicatedRegistry(ctx context.Context) (*registryOnDisk, *replicationTracker) {
	GlobalReplicationDetails = nil
	folders := []string{vfD.base + "/act", vfD.base + "/pas"}
	// the tracker as NewReplicationTracker leaves it on a fresh pair of folders (no status file)
	rt := &replicationTracker{storesBaseFolders: folders, replicate: true, l2Cache: vfLocks{}}
	rt.ActiveFolderToggler = true
	GlobalReplicationDetails = &ReplicationTrackedDetails{ActiveFolderToggler: true}
	l2 := vfLocks{}
	return &registryOnDisk{
		hashmap:            newRegistryMap(true, 1, rt, l2),
		replicationTracker: rt,
		l2Cache:            l2,
		l1Cache:            cache.NewL1Cache(l2, 8, 16),
	}, rt
}

// vfLookup reads ids through a fresh registry map on the given side (active or passive).
func vfLookup(ctx context.Context, rt *replicationTracker, passive bool, ids []sop.UUID) map[sop.UUID]sop.Handle {
	cp := *rt
	if passive {
		cp.ActiveFolderToggler = !rt.ActiveFolderToggler
	}
	rm := newRegistryMap(false, 1, &cp, vfLocks{})
	defer rm.close()
	out := map[sop.UUID]sop.Handle{}
	for _, id := range ids {
		res, err := rm.fetch(ctx, []sop.RegistryPayload[sop.UUID]{{RegistryTable: vfTable, IDs: []sop.UUID{id}}})
		if err == nil && len(res) > 0 && len(res[0].IDs) == 1 {
			out[id] = res[0].IDs[0]
		}
	}
	return out
}

// VerifC27RegistryReplica: a history of three commits over three ids (each commit adds,
// updates or removes ids on the active side the way a transaction does and then calls
// Replicate with the same handle sets); the passive drive may fail at one commit. Without a
// failure, a fail-over to the passive folder shows exactly the handles of the active side.
// With a failure, Replicate reports it once, replication is switched off (later Replicate
// calls do nothing and report nothing) and the active side is unaffected.
func VerifC27RegistryReplica() {
	ctx := context.Background()
	d := vfNewDisk()
	reg, rt := vfReplicatedRegistry(ctx)
	ids := []sop.UUID{vfIDForSlot(3, 1), vfIDForSlot(9, 2), vfIDForSlot(20, 3)} // distinct slots: slot collisions are C21's subject (KF-C21-1)
	model := map[sop.UUID]sop.Handle{}
	failAt := zzvf.Choose("passive-drive-fails-at-commit", 4) // 3 = never
	failed := false
	for commit := 0; commit < 3; commit++ {
		if commit == failAt {
			d.failUnder = vfD.base + "/pas"
		}
		var added, updated, removed []sop.Handle
		for i, id := range ids {
			_, present := model[id]
			if !present {
				if zzvf.Choose("add", 2) == 1 {
					h := sop.NewHandle(id)
					h.Version = int32(commit + 1)
					copy(h.PhysicalIDA[:], zzvf.Bytes("payload", 16))
					added = append(added, h)
					model[id] = h
				}
				continue
			}
			switch zzvf.Choose("change", 3) {
			case 1:
				h := model[id]
				h.Version++
				h.PhysicalIDB[0] = byte(0x40 + i)
				updated = append(updated, h)
				model[id] = h
			case 2:
				removed = append(removed, model[id])
				delete(model, id)
			}
		}
		pl := func(hs []sop.Handle) []sop.RegistryPayload[sop.Handle] {
			if len(hs) == 0 {
				return nil
			}
			return []sop.RegistryPayload[sop.Handle]{{RegistryTable: vfTable, IDs: hs}}
		}
		// active side, as the commit does
		if len(added) > 0 {
			zzvf.Assert(reg.Add(ctx, pl(added)) == nil, "active-add")
		}
		if len(updated) > 0 {
			zzvf.Assert(reg.UpdateNoLocks(ctx, true, pl(updated)) == nil, "active-update")
		}
		if len(removed) > 0 {
			zzvf.Assert(reg.Remove(ctx, sop.ExtractLogicalIDs(pl(removed))) == nil, "active-remove")
		}
		// replication step of the commit
		err := reg.Replicate(ctx, nil, pl(added), pl(updated), pl(removed))
		touched := len(added)+len(updated)+len(removed) > 0
		if failed {
			zzvf.Assert(err == nil, "replication-stays-off-after-a-failure")
		} else if d.failUnder != "" && touched {
			zzvf.Assert(err != nil, "passive-failure-is-reported")
			zzvf.Assert(rt.FailedToReplicate, "passive-failure-switches-replication-off")
			failed = true
		} else if d.failUnder == "" {
			zzvf.Assert(err == nil, "replicate-without-failure-succeeds")
		}
		if rt.FailedToReplicate {
			failed = true
		}
		// the active side always equals the model
		act := vfLookup(ctx, rt, false, ids)
		for _, id := range ids {
			want, present := model[id]
			got, found := act[id]
			zzvf.Assert(found == present, "active-side-membership")
			if found && present {
				zzvf.Assert(zzvf.Eq(got, want), "active-side-handle")
			}
		}
	}
	if !failed && failAt == 3 {
		pas := vfLookup(ctx, rt, true, ids)
		for _, id := range ids {
			want, present := model[id]
			got, found := pas[id]
			zzvf.Assert(found == present, "passive-side-membership")
			if found && present {
				zzvf.Assert(zzvf.Eq(got, want), "passive-side-handle-equals-active")
			}
		}
		zzvf.Reach("c27-replica-compared")
	}
	zzvf.Reach("c27-end")
}
