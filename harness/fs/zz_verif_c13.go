//go:build verif

package fs

import (
	"strconv"

	"github.com/sharedcode/sop/zzvf"
)

// vfJSONSafe constrains b to the bytes encoding/json writes verbatim inside a string:
// printable ASCII except the quote and the backslash (escapes are a separate harness).
func vfJSONSafe(b []byte) {
	for _, c := range b {
		zzvf.Assume(c >= 0x20)
		zzvf.Assume(c <= 0x7e)
		zzvf.Assume(c != '"')
		zzvf.Assume(c != '\\')
		zzvf.Assume(c != '<')
		zzvf.Assume(c != '>')
		zzvf.Assume(c != '&')
	}
}

func vfIs(b []byte, s string) bool {
	if len(b) != len(s) {
		return false
	}
	res := true
	for i := range b {
		res = zzvf.And(res, b[i] == s[i])
	}
	return res
}

// vfStoreInfoJSON mirrors encoding/json's output for sop.StoreInfo (field order, no
// spaces): the strings are symbolic, the numbers are given as decimal text.
func vfStoreInfoJSON(name, desc []byte, count, ts string) (data []byte, countAt, tsAt int) {
	var b []byte
	b = append(b, `{"name":"`...)
	b = append(b, name...)
	b = append(b, `","slot_length":2000,"is_unique":true,"description":"`...)
	b = append(b, desc...)
	b = append(b, `","registry_table":"`...)
	b = append(b, name...)
	b = append(b, `_r","blob_table":"`...)
	b = append(b, name...)
	b = append(b, `_b","root_node_id":"5a0e1122-3344-4000-8000-000000000001","count":`...)
	countAt = len(b)
	b = append(b, count...)
	b = append(b, `,"timestamp":`...)
	tsAt = len(b)
	b = append(b, ts...)
	b = append(b, `,"is_value_data_in_node_segment":true,"is_value_data_actively_persisted":false,"is_value_data_globally_cached":false,"leaf_load_balancing":false,"cache_config":{"registry_cache_duration":0,"is_registry_cache_ttl":false,"node_cache_duration":0,"is_node_cache_ttl":false,"value_data_cache_duration":0,"is_value_data_cache_ttl":false,"store_info_cache_duration":0,"is_store_info_cache_ttl":false},"mapkey_index_spec":"","is_primitive_key":true}`...)
	return b, countAt, tsAt
}

var vfOldCounts = []string{"7", "12", "-3"}
var vfOldStamps = []string{"0", "1700000000000"}
var vfNewCounts = []int64{9, 42, -1, 100}
var vfNewStamps = []int64{5, 1700000000123}

// VerifC13Patch: for every store name (0..9 bytes) and description (0, 5 or 9 bytes) the
// count/timestamp patch used by StoreRepository.Update changes exactly the two numeric
// literals: the result equals the same document rendered with the new numbers.
func VerifC13Patch() {
	name := zzvf.Bytes("name", zzvf.Choose("name.len", 10))
	descLens := []int{0, 5, 9}
	desc := zzvf.Bytes("description", descLens[zzvf.Choose("description.len", 3)])
	vfJSONSafe(name)
	vfJSONSafe(desc)
	zzvf.Known("KF-C13-1", zzvf.Or(zzvf.Or(vfIs(name, "count"), vfIs(name, "timestamp")), zzvf.Or(vfIs(desc, "count"), vfIs(desc, "timestamp"))))
	oldCount := vfOldCounts[zzvf.Choose("oldCount", len(vfOldCounts))]
	oldTs := vfOldStamps[zzvf.Choose("oldTimestamp", len(vfOldStamps))]
	newCount := vfNewCounts[zzvf.Choose("newCount", len(vfNewCounts))]
	newTs := vfNewStamps[zzvf.Choose("newTimestamp", len(vfNewStamps))]
	data, _, _ := vfStoreInfoJSON(name, desc, oldCount, oldTs)
	want, _, _ := vfStoreInfoJSON(name, desc, strconv.FormatInt(newCount, 10), strconv.FormatInt(newTs, 10))

	patched, err := patchJSONNumericField(data, fieldCount, newCount)
	zzvf.Assert(err == nil, "patch-count-no-error")
	if err == nil {
		patched, err = patchJSONNumericField(patched, fieldTimestamp, newTs)
		zzvf.Assert(err == nil, "patch-timestamp-no-error")
	}
	if err == nil {
		zzvf.Assert(len(patched) == len(want), "patched-document-length")
		if len(patched) == len(want) {
			zzvf.Assert(zzvf.BytesEq(patched, want), "only-count-and-timestamp-change")
		}
	}
	zzvf.Reach("c13-patch-end")
}
