//go:build verif

package fs

import (
	"io"

	"github.com/klauspost/reedsolomon"
)

// vfRS is a Reed-Solomon coder over GF(2^8) (polynomial 0x11d) built like the library's
// default one: Vandermonde matrix made systematic by multiplying with the inverse of its
// top square. Under the engine it replaces reedsolomon.New (the library's table- and
// SIMD-driven kernels are out of reach of the encoder); multiplication of a shard byte by a
// matrix coefficient is done with shifts and xors so that symbolic shard bytes stay cheap
// bit-vector terms. Argument checks and error values follow the library's Encode, Verify,
// reconstruct, Split and Join. In native replays the real library is used.
type vfRS struct {
	d, p int
	m    [][]byte // (d+p) x d
}

func vfXtime(x byte) byte { return (x << 1) ^ (0x1d & -(x >> 7)) }

// vfMulC multiplies x (possibly symbolic) by the constant c.
func vfMulC(c byte, x byte) byte {
	var r byte
	for i := 0; i < 8; i++ {
		if c&1 != 0 {
			r ^= x
		}
		c >>= 1
		x = vfXtime(x)
	}
	return r
}

func vfGfPow(a byte, n int) byte {
	r := byte(1)
	for i := 0; i < n; i++ {
		r = vfMulC(a, r)
	}
	return r
}

func vfGfInv(a byte) byte { return vfGfPow(a, 254) }

func vfMatMul(a, b [][]byte) [][]byte {
	out := make([][]byte, len(a))
	for i := range a {
		out[i] = make([]byte, len(b[0]))
		for j := range b[0] {
			var s byte
			for k := range b {
				s ^= vfMulC(a[i][k], b[k][j])
			}
			out[i][j] = s
		}
	}
	return out
}

// vfMatInv inverts a square matrix by Gauss-Jordan elimination (nil if singular).
func vfMatInv(a [][]byte) [][]byte {
	n := len(a)
	w := make([][]byte, n)
	for i := range a {
		w[i] = make([]byte, 2*n)
		copy(w[i], a[i])
		w[i][n+i] = 1
	}
	for c := 0; c < n; c++ {
		piv := -1
		for r := c; r < n; r++ {
			if w[r][c] != 0 {
				piv = r
				break
			}
		}
		if piv < 0 {
			return nil
		}
		w[c], w[piv] = w[piv], w[c]
		inv := vfGfInv(w[c][c])
		for j := range w[c] {
			w[c][j] = vfMulC(inv, w[c][j])
		}
		for r := 0; r < n; r++ {
			if r != c && w[r][c] != 0 {
				f := w[r][c]
				for j := range w[r] {
					w[r][j] ^= vfMulC(f, w[c][j])
				}
			}
		}
	}
	out := make([][]byte, n)
	for i := range out {
		out[i] = w[i][n:]
	}
	return out
}

func vfNewRS(dataShards, parityShards int, opts ...reedsolomon.Option) (reedsolomon.Encoder, error) {
	if dataShards <= 0 || parityShards < 0 {
		return nil, reedsolomon.ErrInvShardNum
	}
	t := dataShards + parityShards
	vm := make([][]byte, t)
	for r := range vm {
		vm[r] = make([]byte, dataShards)
		for c := range vm[r] {
			vm[r][c] = vfGfPow(byte(r), c)
		}
	}
	top := vfMatInv(vm[:dataShards])
	return &vfRS{d: dataShards, p: parityShards, m: vfMatMul(vm, top)}, nil
}

func vfShardSize(shards [][]byte) int {
	for _, s := range shards {
		if len(s) != 0 {
			return len(s)
		}
	}
	return 0
}

func vfCheckShards(shards [][]byte, nilok bool) error {
	size := vfShardSize(shards)
	if size == 0 {
		return reedsolomon.ErrShardNoData
	}
	for _, s := range shards {
		if len(s) != size {
			if len(s) != 0 || !nilok {
				return reedsolomon.ErrShardSize
			}
		}
	}
	return nil
}

// code computes out[j] = sum_k rows[j][k]*in[k] bytewise.
func (r *vfRS) code(rows [][]byte, in [][]byte, out [][]byte, n int) {
	for j := range out {
		for b := 0; b < n; b++ {
			var s byte
			for k := range in {
				s ^= vfMulC(rows[j][k], in[k][b])
			}
			out[j][b] = s
		}
	}
}

func (r *vfRS) Encode(shards [][]byte) error {
	if len(shards) != r.d+r.p {
		return reedsolomon.ErrTooFewShards
	}
	if err := vfCheckShards(shards, false); err != nil {
		return err
	}
	r.code(r.m[r.d:], shards[:r.d], shards[r.d:], len(shards[0]))
	return nil
}

func (r *vfRS) EncodeIdx(dataShard []byte, idx int, parity [][]byte) error {
	panic("vfRS: EncodeIdx not modelled")
}

func (r *vfRS) Verify(shards [][]byte) (bool, error) {
	if len(shards) != r.d+r.p {
		return false, reedsolomon.ErrTooFewShards
	}
	if err := vfCheckShards(shards, false); err != nil {
		return false, err
	}
	n := len(shards[0])
	want := make([][]byte, r.p)
	for i := range want {
		want[i] = make([]byte, n)
	}
	r.code(r.m[r.d:], shards[:r.d], want, n)
	var diff byte
	for i := range want {
		for b := 0; b < n; b++ {
			diff |= want[i][b] ^ shards[r.d+i][b]
		}
	}
	return diff == 0, nil
}

func (r *vfRS) Reconstruct(shards [][]byte) error     { return r.reconstruct(shards, false, nil) }
func (r *vfRS) ReconstructData(shards [][]byte) error { return r.reconstruct(shards, true, nil) }
func (r *vfRS) ReconstructSome(shards [][]byte, required []bool) error {
	if len(required) == r.d+r.p {
		return r.reconstruct(shards, false, required)
	}
	return r.reconstruct(shards, true, required)
}

func (r *vfRS) reconstruct(shards [][]byte, dataOnly bool, required []bool) error {
	t := r.d + r.p
	if len(shards) != t || required != nil && len(required) < r.d {
		return reedsolomon.ErrTooFewShards
	}
	if err := vfCheckShards(shards, true); err != nil {
		return err
	}
	size := vfShardSize(shards)
	present, dataPresent, missingRequired := 0, 0, 0
	for i := 0; i < t; i++ {
		if len(shards[i]) != 0 {
			present++
			if i < r.d {
				dataPresent++
			}
		} else if required != nil && required[i] {
			missingRequired++
		}
	}
	if present == t || dataOnly && dataPresent == r.d || required != nil && missingRequired == 0 {
		return nil
	}
	if present < r.d {
		return reedsolomon.ErrTooFewShards
	}
	sub := make([][]byte, 0, r.d)
	subRows := make([][]byte, 0, r.d)
	for i := 0; i < t && len(sub) < r.d; i++ {
		if len(shards[i]) != 0 {
			sub = append(sub, shards[i])
			subRows = append(subRows, r.m[i])
		}
	}
	dec := vfMatInv(subRows)
	if dec == nil {
		return reedsolomon.ErrReconstructRequired
	}
	var outs, rows [][]byte
	for i := 0; i < r.d; i++ {
		if len(shards[i]) == 0 && (required == nil || required[i]) {
			shards[i] = make([]byte, size)
			outs = append(outs, shards[i])
			rows = append(rows, dec[i])
		}
	}
	r.code(rows, sub, outs, size)
	if dataOnly {
		return nil
	}
	outs, rows = nil, nil
	for i := r.d; i < t; i++ {
		if len(shards[i]) == 0 && (required == nil || required[i]) {
			shards[i] = make([]byte, size)
			outs = append(outs, shards[i])
			rows = append(rows, r.m[i])
		}
	}
	r.code(rows, shards[:r.d], outs, size)
	return nil
}

func (r *vfRS) Update(shards [][]byte, newDatashards [][]byte) error {
	panic("vfRS: Update not modelled")
}

func (r *vfRS) Split(data []byte) ([][]byte, error) {
	if len(data) == 0 {
		return nil, reedsolomon.ErrShortData
	}
	t := r.d + r.p
	if t == 1 {
		return [][]byte{data}, nil
	}
	per := (len(data) + r.d - 1) / r.d
	buf := make([]byte, t*per)
	copy(buf, data)
	dst := make([][]byte, t)
	for i := range dst {
		dst[i] = buf[i*per : (i+1)*per : (i+1)*per]
	}
	return dst, nil
}

func (r *vfRS) Join(dst io.Writer, shards [][]byte, outSize int) error {
	if len(shards) < r.d {
		return reedsolomon.ErrTooFewShards
	}
	shards = shards[:r.d]
	size := 0
	for _, s := range shards {
		if s == nil {
			return reedsolomon.ErrReconstructRequired
		}
		size += len(s)
		if size >= outSize {
			break
		}
	}
	if size < outSize {
		return reedsolomon.ErrShortData
	}
	write := outSize
	for _, s := range shards {
		if write < len(s) {
			_, err := dst.Write(s[:write])
			return err
		}
		n, err := dst.Write(s)
		if err != nil {
			return err
		}
		write -= n
	}
	return nil
}

func (r *vfRS) ShardSizeMultiple() int             { return 1 }
func (r *vfRS) DataShards() int                    { return r.d }
func (r *vfRS) ParityShards() int                  { return r.p }
func (r *vfRS) TotalShards() int                   { return r.d + r.p }
func (r *vfRS) AllocAligned(each int) [][]byte {
	out := make([][]byte, r.d+r.p)
	for i := range out {
		out[i] = make([]byte, each)
	}
	return out
}
