//go:build verif

package fs

import (
	"context"

	"github.com/sharedcode/sop"
	"github.com/sharedcode/sop/encoding"
	"github.com/sharedcode/sop/zzvf"
)

// vfBlockWith returns a valid block that holds handle h in its ideal slot vfSlot, built by
// the real marshal code; empty=true gives the never-written all-zero block.
func vfBlockWith(h sop.Handle, empty bool) []byte {
	block := make([]byte, blockSize)
	if empty {
		return block
	}
	ba, _ := encoding.NewHandleMarshaler().Marshal(h, make([]byte, 0, sop.HandleSizeInBytes))
	copy(block[vfSlot*sop.HandleSizeInBytes:], ba)
	marshalData(block[:blockSize-4], block)
	return block
}

// VerifC22CrashAtomicWrite: a registry block write (add into an empty block, update or
// removal of a stored handle) is killed at any of its I/O steps - while the backup file is
// written (any prefix reached the disk), while the block is written (any torn prefix length
// 0..4096, a solver variable), or before the backup is removed. A new process then reads
// the block: it must get no error and see exactly the old or exactly the new contents, and
// the block on disk must afterwards be entirely old or entirely new.
func VerifC22CrashAtomicWrite() {
	d := vfNewDisk()
	ctx := context.Background()

	var hOld sop.Handle
	hOld.LogicalID = vfIDForSlot(vfSlot, 1)
	copy(hOld.PhysicalIDA[:], zzvf.Bytes("old.ida", 16))
	hOld.Version = zzvf.Int32("old.version")
	zzvf.Assume(hOld.Version >= 0)
	hNew := hOld
	copy(hNew.PhysicalIDB[:], zzvf.Bytes("new.idb", 16))
	hNew.Version = zzvf.Int32("new.version")
	zzvf.Assume(hNew.Version >= 0)

	const (
		opAdd = iota // first handle into a never-written block
		opUpdate
		opRemove
	)
	op := zzvf.Choose("operation", 3)
	oldBlock := vfBlockWith(hOld, op == opAdd)
	var newBlock []byte
	switch op {
	case opAdd:
		newBlock = vfBlockWith(hNew, false)
	case opUpdate:
		newBlock = vfBlockWith(hNew, false)
	case opRemove:
		newBlock = vfBlockWith(hOld, true)
	}
	zzvf.Assume(zzvf.Not(zzvf.BytesEq(oldBlock, newBlock)))
	d.putSeg(vfSegPath(1), append([]byte{}, oldBlock...))

	d.crash = 1 + zzvf.Choose("crash.point", 3)
	switch d.crash {
	case vfCrashCowWrite:
		lens := []int{0, 1, 100, blockSize - 1, blockSize}
		d.cowLen = lens[zzvf.Choose("cow.prefix", len(lens))]
	case vfCrashBlockWrite:
		d.tornLen = zzvf.Int("torn.length")
		zzvf.Assume(d.tornLen >= 0)
		zzvf.Assume(d.tornLen <= blockSize)
	}

	writer := vfNewRegistryMap(1)
	if !zzvf.Symbolic() && d.crash == vfCrashCowWrite {
		// the native FileIO cannot be interrupted: build the state that crash leaves behind
		d.putFile(vfCowPath(1, 0), append([]byte{}, oldBlock[:d.cowLen]...))
	} else {
		crashed := zzvf.CatchCrash(func() {
			switch op {
			case opAdd:
				writer.add(ctx, []sop.RegistryPayload[sop.Handle]{{RegistryTable: vfTable, IDs: []sop.Handle{hNew}}})
			case opUpdate:
				writer.set(ctx, []sop.RegistryPayload[sop.Handle]{{RegistryTable: vfTable, IDs: []sop.Handle{hNew}}})
			case opRemove:
				writer.remove(ctx, []sop.RegistryPayload[sop.UUID]{{RegistryTable: vfTable, IDs: []sop.UUID{hOld.LogicalID}}})
			}
		})
		zzvf.Assert(crashed, "writer-reached-the-crash-point")
	}
	d.crash = vfCrashNone

	// Checksum quality assumption (stated, not verified): a torn mixture of old and new
	// bytes passes the block format's validity rule only if it is in fact the old or the
	// new block. (With CRC32 as an uninterpreted function the solver could otherwise pick a
	// checksum value that happens to fit the mixture.)
	mix := d.getSeg(vfSegPath(1))
	zzvf.Assume(zzvf.Implies(vfBlockValid(mix), zzvf.Or(zzvf.BytesEq(mix, oldBlock), zzvf.BytesEq(mix, newBlock))))

	// a new process reads the block
	// ... with a read-write registry map (writer transaction) or a read-only one (reader transaction)
	readOnly := zzvf.Choose("reader-is-read-only", 2) == 1
	reader := vfNewRegistryMapMode(1, !readOnly)
	res, err := reader.fetch(ctx, []sop.RegistryPayload[sop.UUID]{{RegistryTable: vfTable, IDs: []sop.UUID{hOld.LogicalID}}})
	zzvf.Assert(err == nil, "read-after-crash-no-error")
	if err != nil {
		return
	}
	var got []sop.Handle
	if len(res) > 0 {
		got = res[0].IDs
	}
	sawOld, sawNew := false, false
	switch op {
	case opAdd:
		sawOld = len(got) == 0
		sawNew = len(got) == 1 && zzvf.Eq(got[0], hNew)
	case opUpdate:
		sawOld = len(got) == 1 && zzvf.Eq(got[0], hOld)
		sawNew = len(got) == 1 && zzvf.Eq(got[0], hNew)
	case opRemove:
		sawOld = len(got) == 1 && zzvf.Eq(got[0], hOld)
		sawNew = len(got) == 0
	}
	zzvf.Assert(zzvf.Or(sawOld, sawNew), "reader-sees-old-or-new-handle")
	after := d.getSeg(vfSegPath(1))
	if !readOnly {
		// (a read-only reader cannot repair the file; the next read-write access does)
		zzvf.Assert(zzvf.Or(zzvf.BytesEq(after, oldBlock), zzvf.BytesEq(after, newBlock)), "block-on-disk-entirely-old-or-new")
		zzvf.Assert(vfBlockValid(after), "block-on-disk-valid-after-recovery")
	}
	zzvf.Reach("c22-read-after-crash")

	// a later writer must be able to update the block again
	hLater := hNew
	hLater.Version = 7
	hLater.LogicalID = hOld.LogicalID
	w2 := vfNewRegistryMap(1)
	var err2 error
	if len(got) == 1 {
		err2 = w2.set(ctx, []sop.RegistryPayload[sop.Handle]{{RegistryTable: vfTable, IDs: []sop.Handle{hLater}}})
	} else {
		err2 = w2.add(ctx, []sop.RegistryPayload[sop.Handle]{{RegistryTable: vfTable, IDs: []sop.Handle{hLater}}})
	}
	zzvf.Assert(err2 == nil, "later-writer-succeeds")
	res2, err3 := vfNewRegistryMap(1).fetch(ctx, []sop.RegistryPayload[sop.UUID]{{RegistryTable: vfTable, IDs: []sop.UUID{hOld.LogicalID}}})
	zzvf.Assert(err3 == nil && len(res2) == 1 && len(res2[0].IDs) == 1, "later-write-readable")
	if err3 == nil && len(res2) == 1 && len(res2[0].IDs) == 1 {
		zzvf.Assert(zzvf.Eq(res2[0].IDs[0], hLater), "later-write-is-what-was-written")
	}
	zzvf.Reach("c22-later-writer")
}
