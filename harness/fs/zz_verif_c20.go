//go:build verif

package fs

import (
	"context"
	"time"

	"github.com/sharedcode/sop"
	"github.com/sharedcode/sop/cache"
	"github.com/sharedcode/sop/zzvf"
)

// vfL2Handles is an L2 cache model for registry handles: it keeps what SetStruct stores and
// may lose any entry at any moment (eviction, expiry, restart): whether a stored entry is
// still there at a lookup is an engine choice per key and lookup.
type vfL2Handles struct {
	vfLocks
	m     map[string]sop.Handle
	lossy bool // entries may be lost at lookups
}

func (c *vfL2Handles) SetStruct(ctx context.Context, key string, value interface{}, expiration time.Duration) error {
	if h, ok := value.(*sop.Handle); ok {
		c.m[key] = *h
	}
	return nil
}
func (c *vfL2Handles) lookup(key string, target interface{}) bool {
	h, ok := c.m[key]
	if !ok {
		return false
	}
	if c.lossy && zzvf.Choose("l2-entry-evicted", 2) == 1 {
		delete(c.m, key)
		return false
	}
	if t, ok := target.(*sop.Handle); ok {
		*t = h
	}
	return true
}
func (c *vfL2Handles) GetStruct(ctx context.Context, key string, target interface{}) (bool, error) {
	return c.lookup(key, target), nil
}
func (c *vfL2Handles) GetStructEx(ctx context.Context, key string, target interface{}, expiration time.Duration) (bool, error) {
	return c.lookup(key, target), nil
}
func (c *vfL2Handles) GetStructs(ctx context.Context, keys []string, targets []interface{}, expiration time.Duration) ([]bool, error) {
	r := make([]bool, len(keys))
	for i := range keys {
		r[i] = c.lookup(keys[i], targets[i])
	}
	return r, nil
}
func (c *vfL2Handles) Delete(ctx context.Context, keys []string) (bool, error) {
	for _, k := range keys {
		delete(c.m, k)
	}
	return true, nil
}

// vfNewRegistry builds the file-system registry of one "process" (own L1 cache) over the
// shared disk and the shared L2 cache.
func vfNewRegistry(l2 sop.L2Cache) *registryOnDisk {
	rt := &replicationTracker{storesBaseFolders: []string{vfD.base}}
	rt.ActiveFolderToggler = true
	return &registryOnDisk{
		hashmap:            newRegistryMap(true, 1, rt, l2),
		replicationTracker: rt,
		l2Cache:            l2,
		l1Cache:            cache.NewL1Cache(l2, 8, 16),
	}
}

func vfHandle(id sop.UUID, version int32, salt byte) sop.Handle {
	h := sop.NewHandle(id)
	h.Version = version
	h.PhysicalIDA[0] = salt
	return h
}

// VerifC20RegistryLookups: a writer process stores handles of two registry tables and then
// updates them in one batch (as a commit does); a reader process, and the writer itself,
// look the ids up in any order while the shared L2 cache may have lost any entry. Every
// lookup must return, at each position of the request, the latest handle of the id asked
// for at that position.
func VerifC20RegistryLookups() {
	ctx := context.Background()
	vfNewDisk()
	l2 := &vfL2Handles{m: map[string]sop.Handle{}}
	writer := vfNewRegistry(l2)
	reader := vfNewRegistry(l2)
	a, b, c := vfIDForSlot(3, 1), vfIDForSlot(9, 2), vfIDForSlot(5, 3)
	latest := map[sop.UUID]sop.Handle{}
	put := func(h sop.Handle) sop.Handle { latest[h.LogicalID] = h; return h }
	err := writer.Add(ctx, []sop.RegistryPayload[sop.Handle]{
		{RegistryTable: "t", IDs: []sop.Handle{put(vfHandle(a, 1, 0x11)), put(vfHandle(b, 1, 0x12))}},
		{RegistryTable: "u", IDs: []sop.Handle{put(vfHandle(c, 1, 0x13))}},
	})
	zzvf.Assert(err == nil, "add")
	check := func(who string, r *registryOnDisk) {
		// request order chosen by the engine
		ids := []sop.UUID{a, b}
		if zzvf.Choose("request-order", 2) == 1 {
			ids = []sop.UUID{b, a}
		}
		res, err := r.Get(ctx, []sop.RegistryPayload[sop.UUID]{{RegistryTable: "t", IDs: ids}, {RegistryTable: "u", IDs: []sop.UUID{c}}})
		zzvf.Assert(err == nil, who+": get")
		if err != nil {
			return
		}
		zzvf.Assert(len(res) == 2 && len(res[0].IDs) == 2 && len(res[1].IDs) == 1, who+": every-id-answered")
		if len(res) != 2 || len(res[0].IDs) != 2 || len(res[1].IDs) != 1 {
			return
		}
		for i, id := range ids {
			zzvf.Assert(res[0].IDs[i].LogicalID == id, who+": answer-at-the-position-of-the-request")
			zzvf.Assert(res[0].IDs[i] == latest[res[0].IDs[i].LogicalID], who+": latest-handle")
		}
		zzvf.Assert(res[1].IDs[0] == latest[c], who+": latest-handle-second-table")
	}
	l2.lossy = true
	check("reader-before-update", reader)
	l2.lossy = false
	// one batch, two tables: the flip of a commit
	err = writer.UpdateNoLocks(ctx, true, []sop.RegistryPayload[sop.Handle]{
		{RegistryTable: "t", IDs: []sop.Handle{put(vfHandle(a, 2, 0x21))}},
		{RegistryTable: "u", IDs: []sop.Handle{put(vfHandle(c, 2, 0x23))}},
	})
	zzvf.Assert(err == nil, "update")
	l2.lossy = true
	check("reader-after-update", reader)
	l2.lossy = false
	check("writer-after-update", writer)
	// per-key locked update path and removal
	err = writer.Update(ctx, []sop.RegistryPayload[sop.Handle]{{RegistryTable: "t", IDs: []sop.Handle{put(vfHandle(b, 2, 0x22))}}})
	zzvf.Assert(err == nil, "update-with-locks")
	l2.lossy = zzvf.Choose("lossy-last-lookup", 2) == 1
	check("reader-after-second-update", reader)
	zzvf.Reach("c20-registry-end")
}
