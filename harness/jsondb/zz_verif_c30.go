//go:build verif

package jsondb

import (
	"github.com/sharedcode/sop/zzvf"
)

// field value kinds of a JSON-typed key
const (
	vfAbsent = iota
	vfNull
	vfNumber
	vfText
	vfBool
)

// vfPut stores into key[field] a value of one of the allowed kinds. Numbers and one-byte
// strings are symbolic when symbolic is set, otherwise one of two concrete values.
func vfPut(key map[string]any, field, name string, kinds []int, symbolic bool) int {
	kind := kinds[zzvf.Choose(name+".kind", len(kinds))]
	switch kind {
	case vfNull:
		key[field] = nil
	case vfNumber:
		if symbolic {
			f := zzvf.Float64(name)
			zzvf.Assume(f == f) // JSON has no NaN
			key[field] = f
		} else {
			key[field] = []float64{1.5, 20}[zzvf.Choose(name+".num", 2)]
		}
	case vfText:
		if symbolic {
			key[field] = zzvf.ByteString(name, 1)
		} else {
			key[field] = []string{"a", "b"}[zzvf.Choose(name+".txt", 2)]
		}
	case vfBool:
		key[field] = zzvf.Choose(name+".bool", 2) == 1
	}
	return kind
}

func vfSgn(c int) int {
	if c < 0 {
		return -1
	}
	if c > 0 {
		return 1
	}
	return 0
}

// vfPreorder asserts the total-preorder axioms of cmp on three keys.
func vfPreorder(tag string, cmp func(a, b map[string]any) int, k1, k2, k3 map[string]any) {
	c11 := cmp(k1, k1)
	c12, c21 := cmp(k1, k2), cmp(k2, k1)
	c23, c13 := cmp(k2, k3), cmp(k1, k3)
	zzvf.Assert(c11 == 0, tag+": reflexive")
	zzvf.Assert(vfSgn(c12) == -vfSgn(c21), tag+": antisymmetric")
	if c12 <= 0 && c23 <= 0 {
		zzvf.Assert(c13 <= 0, tag+": transitive")
	}
	if c12 == 0 && c23 == 0 {
		zzvf.Assert(c13 == 0, tag+": equality-transitive")
	}
	// asking again gives the same answer
	zzvf.Assert(vfSgn(cmp(k1, k2)) == vfSgn(c12), tag+": stable-on-repeat")
}

// VerifC30IndexSpec: an index specification over two number fields (each ascending or
// descending) after the comparers have been fixed by a first, fully populated key. Keys
// may lack a field or carry null. The order must be a consistent total preorder.
func VerifC30IndexSpec() {
	asc1, asc2 := zzvf.Choose("f1.ascending", 2) == 1, zzvf.Choose("f2.ascending", 2) == 1
	idx := NewIndexSpecification([]IndexFieldSpecification{
		{FieldName: "a", AscendingSortOrder: asc1},
		{FieldName: "b", AscendingSortOrder: asc2},
	})
	warm := map[string]any{"a": 1.0, "b": 2.0}
	idx.Comparer(warm, warm)
	mk := func(name string) map[string]any {
		k := map[string]any{}
		vfPut(k, "a", name+".a", []int{vfAbsent, vfNull, vfNumber}, true)
		vfPut(k, "b", name+".b", []int{vfAbsent, vfNumber}, true)
		return k
	}
	vfPreorder("indexspec-numbers", idx.Comparer, mk("k1"), mk("k2"), mk("k3"))
	zzvf.Reach("c30-indexspec-end")
}

// VerifC30IndexSpecText: the same with a text field first and a number field second.
func VerifC30IndexSpecText() {
	idx := NewIndexSpecification([]IndexFieldSpecification{
		{FieldName: "a", AscendingSortOrder: zzvf.Choose("f1.ascending", 2) == 1},
		{FieldName: "b", AscendingSortOrder: true},
	})
	warm := map[string]any{"a": "m", "b": 2.0}
	idx.Comparer(warm, warm)
	mk := func(name string) map[string]any {
		k := map[string]any{}
		vfPut(k, "a", name+".a", []int{vfAbsent, vfText}, true)
		vfPut(k, "b", name+".b", []int{vfAbsent, vfNumber}, true)
		return k
	}
	vfPreorder("indexspec-text", idx.Comparer, mk("k1"), mk("k2"), mk("k3"))
	zzvf.Reach("c30-indexspec-text-end")
}

// VerifC30Default: the default field-wise order (fields fixed by the first key seen).
func VerifC30Default() {
	j := &JsonDBMapKey{}
	warm := map[string]any{"a": 1.0, "b": "m"}
	j.defaultComparer(warm, warm)
	mk := func(name string) map[string]any {
		k := map[string]any{}
		vfPut(k, "a", name+".a", []int{vfAbsent, vfNumber}, true)
		vfPut(k, "b", name+".b", []int{vfAbsent, vfNull, vfText}, true)
		return k
	}
	vfPreorder("default-order", j.proxyComparer, mk("k1"), mk("k2"), mk("k3"))
	zzvf.Reach("c30-default-end")
}

// VerifC30HistoryIndependence: the result for two keys must not depend on which keys
// were compared before. One field; the earlier comparison uses a value of any kind.
func VerifC30HistoryIndependence() {
	kinds := []int{vfAbsent, vfNull, vfNumber, vfText, vfBool}
	k1, k2, early := map[string]any{}, map[string]any{}, map[string]any{}
	kd1 := vfPut(k1, "a", "k1.a", kinds, false)
	kd2 := vfPut(k2, "a", "k2.a", kinds, false)
	kde := vfPut(early, "a", "early.a", kinds, false)
	useDefault := zzvf.Choose("comparer", 2) == 1
	var fresh, used func(a, b map[string]any) int
	if useDefault {
		early["z"], k1["z"], k2["z"] = 1.0, 1.0, 1.0 // a field every key has, so the field list is the same
		fresh, used = (&JsonDBMapKey{}).proxyComparer, (&JsonDBMapKey{}).proxyComparer
	} else {
		spec := []IndexFieldSpecification{{FieldName: "a", AscendingSortOrder: true}}
		fresh = NewIndexSpecification(append([]IndexFieldSpecification{}, spec...)).Comparer
		used = NewIndexSpecification(append([]IndexFieldSpecification{}, spec...)).Comparer
	}
	used(early, early)
	// KF-C30-1: the comparer of a field is chosen from the first value seen and kept, so
	// values of another kind (another type, null or missing) are then compared differently.
	isMixed := func(x, y int) bool {
		norm := func(k int) int {
			if k == vfAbsent {
				return vfNull
			}
			return k
		}
		return norm(x) != norm(y)
	}
	zzvf.Known("KF-C30-1", isMixed(kde, kd1) || isMixed(kde, kd2) || isMixed(kd1, kd2))
	zzvf.Assert(vfSgn(used(k1, k2)) == vfSgn(fresh(k1, k2)), "history-independent")
	zzvf.Reach("c30-history-end")
}
