//go:build verif

package encoding

import (
	"github.com/sharedcode/sop"
	"github.com/sharedcode/sop/zzvf"
)

func verifSymHandle(prefix string) sop.Handle {
	var h sop.Handle
	copy(h.LogicalID[:], zzvf.Bytes(prefix+"lid", 16))
	copy(h.PhysicalIDA[:], zzvf.Bytes(prefix+"ida", 16))
	copy(h.PhysicalIDB[:], zzvf.Bytes(prefix+"idb", 16))
	h.IsActiveIDB = zzvf.Bool(prefix + "activeB")
	h.Version = zzvf.Int32(prefix + "version")
	h.WorkInProgressTimestamp = zzvf.Int64(prefix + "wipts")
	h.IsDeleted = zzvf.Bool(prefix + "deleted")
	return h
}

// VerifC24RoundTrip: every bit of a Handle is symbolic; encode then decode into a
// fresh Handle must give the identical Handle and exactly HandleSizeInBytes bytes.
func VerifC24RoundTrip() {
	h := verifSymHandle("")
	enc := NewHandleMarshaler()
	buf := make([]byte, 0, sop.HandleSizeInBytes)
	ba, err := enc.Marshal(h, buf)
	zzvf.Assert(err == nil, "marshal-no-error")
	zzvf.Assert(len(ba) == sop.HandleSizeInBytes, "encoded-size-62")
	var h2 sop.Handle
	err = enc.Unmarshal(ba, &h2)
	zzvf.Assert(err == nil, "unmarshal-no-error")
	zzvf.Assert(h2 == h, "roundtrip-identical")
	lid, err := enc.UnmarshalLogicalID(ba)
	zzvf.Assert(err == nil, "unmarshal-lid-no-error")
	zzvf.Assert(lid == h.LogicalID, "logical-id-prefix")
	zzvf.Reach("c24-roundtrip-end")
}

// VerifC24Injective: two handles that differ encode to different records
// (decode is a function, so this follows from the round trip; asked of the solver directly).
func VerifC24Injective() {
	h1 := verifSymHandle("a.")
	h2 := verifSymHandle("b.")
	enc := NewHandleMarshaler()
	b1, _ := enc.Marshal(h1, make([]byte, 0, sop.HandleSizeInBytes))
	b2, _ := enc.Marshal(h2, make([]byte, 0, sop.HandleSizeInBytes))
	zzvf.Assert(zzvf.Implies(zzvf.BytesEq(b1, b2), h1 == h2), "encoding-injective")
	zzvf.Reach("c24-injective-end")
}
