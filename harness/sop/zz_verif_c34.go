//go:build verif

package sop

import (
	"context"

	"github.com/sharedcode/sop/zzvf"
)

func vfStrs(name string, max int) []string {
	n := zzvf.Choose(name+".len", max+1)
	var out []string
	for i := 0; i < n; i++ {
		out = append(out, zzvf.Str(name))
	}
	return out
}

func vfGrants(name string, maxEntries, maxActions int) map[string][]string {
	n := zzvf.Choose(name+".entries", maxEntries+1)
	if n == 0 && zzvf.Choose(name+".nilmap", 2) == 1 {
		return nil
	}
	m := map[string][]string{}
	for i := 0; i < n; i++ {
		m[zzvf.Str(name+".key")] = vfStrs(name+".actions", maxActions)
	}
	return m
}

func vfGrantAllows(grants map[string][]string, who string, action Action) bool {
	res := false
	for k, acts := range grants {
		hit := false
		for _, a := range acts {
			hit = zzvf.Or(hit, zzvf.Or(a == string(action), a == "*"))
		}
		res = zzvf.Or(res, zzvf.And(k == who, hit))
	}
	return res
}

// vfExpected is the access rule of the statement written as one formula.
func vfExpected(caller AuthContext, access ResourceAccess, action Action) bool {
	isAdmin := false
	roleGrant := false
	for _, r := range caller.Roles {
		isAdmin = zzvf.Or(isAdmin, r == RoleAdmin)
		roleGrant = zzvf.Or(roleGrant, vfGrantAllows(access.Roles, r, action))
	}
	owner := zzvf.And(access.OwnerID != "", caller.UserID == access.OwnerID)
	public := zzvf.And(zzvf.Or(access.Visibility == VisibilityPublic, access.Visibility == ""),
		zzvf.Or(action == ActionRead, action == ActionList))
	userGrant := vfGrantAllows(access.Users, caller.UserID, action)
	normal := zzvf.Or(zzvf.Or(isAdmin, owner), zzvf.Or(public, zzvf.Or(roleGrant, userGrant)))
	isSys := access.Visibility == VisibilitySystem
	return zzvf.Or(zzvf.And(isSys, caller.IsSystem), zzvf.And(zzvf.Not(isSys), normal))
}

func vfScenario(thoroughEntries int) (context.Context, AuthContext, string, ResourceAccess, Action) {
	maxEntries := 1 // quick tier: grant maps of 0..1 entries; thorough: 0..thoroughEntries
	if zzvf.Thorough() {
		maxEntries = thoroughEntries
	}
	caller := AuthContext{UserID: zzvf.Str("userID"), Roles: vfStrs("callerRole", 2), IsSystem: zzvf.Bool("isSystem")}
	access := ResourceAccess{
		Visibility: Visibility(zzvf.Str("visibility")),
		OwnerID:    zzvf.Str("ownerID"),
		Roles:      vfGrants("roleGrant", maxEntries, 2),
		Users:      vfGrants("userGrant", maxEntries, 2),
	}
	action := Action(zzvf.Str("action"))
	resource := zzvf.Str("resource")
	return ContextWithAuth(context.Background(), caller), caller, resource, access, action
}

// VerifC34Authorize: Authorize equals the reference decision for every caller, resource
// access record and action; strings are opaque values the solver may equate with the
// constants ("Admin", "*", "system", "public", "", "read", ...).
func VerifC34Authorize() {
	ctx, caller, _, access, action := vfScenario(2)
	got := Authorize(ctx, access, action)
	want := vfExpected(caller, access, action)
	zzvf.Assert(got == want, "authorize-equals-reference-decision")
	if got {
		zzvf.Reach("c34-authorize-allowed")
	} else {
		zzvf.Reach("c34-authorize-denied")
	}
}

// VerifC34Policy: core resources are never writable or deletable; otherwise the policy
// functions agree with Authorize; the UI capability map agrees with enforcement.
func VerifC34Policy() {
	ctx, caller, resource, access, action := vfScenario(1) // two entries per grant map exceed a million paths here
	err := CheckPolicy(ctx, resource, access, action)
	core := zzvf.Or(resource == "SOP", resource == "LongTermMemory")
	mutating := zzvf.Or(action == ActionWrite, action == ActionDelete)
	want := zzvf.And(zzvf.Not(zzvf.And(core, mutating)), vfExpected(caller, access, action))
	zzvf.Assert((err == nil) == want, "policy-equals-reference-decision")
	zzvf.Assert(zzvf.Implies(zzvf.And(core, mutating), err != nil), "core-resources-never-written-or-deleted")
	zzvf.Assert((EnforcePolicy(ctx, resource, access, action) == nil) == (err == nil), "enforce-agrees-with-check")
	can := CanPerformAction(ctx, resource, access, action)
	zzvf.Assert(can == (err == nil), "can-perform-agrees-with-check")
	// UI capability map of a blueprint without evaluator
	RegisterAssetRBAC(AssetBlueprint{AssetType: "vf-asset", Actions: []Action{action}})
	caps := ResolveRBACMap(ctx, "vf-asset", EntitlementContext{AssetID: resource}, func() ResourceAccess { return access })
	v, ok := caps[ActionToUICapability(action)]
	zzvf.Assert(ok, "capability-present")
	zzvf.Assert(v == can, "ui-capability-agrees-with-enforcement")
	if err == nil {
		zzvf.Reach("c34-policy-allowed")
	} else {
		zzvf.Reach("c34-policy-denied")
	}
}
