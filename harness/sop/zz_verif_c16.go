//go:build verif

package sop

import (
	"context"
	"errors"
	"time"

	"github.com/sharedcode/sop/zzvf"
)

// A scripted two-phase participant: every method appends to a shared call log and
// fails iff the solver says so (one fresh boolean per call).
const (
	vfBegin = iota
	vfP1
	vfP2
	vfRb
)

type vfCall struct {
	who  int // 0 = SOP's own phase object, 1..n = participants
	what int
	ok   bool
}

type vfParticipant struct {
	who int
	log *[]vfCall
}

var vfErrInjected = errors.New("injected participant failure")

func (p *vfParticipant) step(what int, name string) error {
	fail := zzvf.Bool(name)
	*p.log = append(*p.log, vfCall{p.who, what, !fail})
	if fail {
		return vfErrInjected
	}
	return nil
}

func (p *vfParticipant) Begin(ctx context.Context) error        { return p.step(vfBegin, "failBegin") }
func (p *vfParticipant) Phase1Commit(ctx context.Context) error { return p.step(vfP1, "failP1") }
func (p *vfParticipant) Phase2Commit(ctx context.Context) error { return p.step(vfP2, "failP2") }
func (p *vfParticipant) Rollback(ctx context.Context, err error) error {
	return p.step(vfRb, "failRollback")
}
func (p *vfParticipant) HasBegun() bool                                    { return true }
func (p *vfParticipant) GetMode() TransactionMode                          { return ForWriting }
func (p *vfParticipant) GetStores(ctx context.Context) ([]string, error)   { return nil, nil }
func (p *vfParticipant) Close() error                                      { return nil }
func (p *vfParticipant) GetID() UUID                                       { return NilUUID }
func (p *vfParticipant) CommitMaxDuration() time.Duration                  { return time.Minute }
func (p *vfParticipant) OnCommit(callback func(ctx context.Context) error) {}

func vfSetup() (Transaction, *[]vfCall, int) {
	n := zzvf.Choose("participants", 4)
	log := &[]vfCall{}
	t, _ := NewTransaction(ForWriting, &vfParticipant{0, log})
	// attach in one or several AddPhasedTransaction calls
	for i := 1; i <= n; i++ {
		t.AddPhasedTransaction(&vfParticipant{i, log})
	}
	return t, log, n
}

func vfFirst(log []vfCall, who, what int) int {
	for i, c := range log {
		if c.who == who && c.what == what {
			return i
		}
	}
	return -1
}

func vfCount(log []vfCall, who, what int) int {
	k := 0
	for _, c := range log {
		if c.who == who && c.what == what {
			k++
		}
	}
	return k
}

func vfCheckCommit(log []vfCall, n int, err error) {
	sopP1 := vfFirst(log, 0, vfP1)
	sopP2 := vfFirst(log, 0, vfP2)
	zzvf.Assert(sopP1 >= 0, "sop-phase1-always-attempted")
	allP1ok := sopP1 >= 0 && log[sopP1].ok
	for i := 1; i <= n; i++ {
		k := vfFirst(log, i, vfP1)
		if k < 0 || !log[k].ok {
			allP1ok = false
		}
		if k >= 0 {
			zzvf.Assert(sopP1 >= 0 && sopP1 < k && log[sopP1].ok, "participant-phase1-only-after-sop-phase1-ok")
		}
	}
	sopP2ok := sopP2 >= 0 && log[sopP2].ok
	if sopP2 >= 0 {
		zzvf.Assert(allP1ok, "sop-phase2-only-after-every-phase1-ok")
		for i := 1; i <= n; i++ {
			zzvf.Assert(vfFirst(log, i, vfP1) < sopP2, "participants-phase1-before-sop-phase2")
		}
	}
	for i := 1; i <= n; i++ {
		k := vfFirst(log, i, vfP2)
		if k >= 0 {
			zzvf.Assert(allP1ok && sopP2ok && sopP2 < k, "participant-phase2-only-after-all-phase1-and-sop-phase2-ok")
		}
		zzvf.Assert(vfCount(log, i, vfP2) <= 1 && vfCount(log, i, vfP1) <= 1, "each-phase-at-most-once")
	}
	good := allP1ok && sopP2ok
	if good {
		zzvf.Assert(err == nil, "commit-succeeds-when-all-phases-succeed")
		for i := 1; i <= n; i++ {
			zzvf.Assert(vfFirst(log, i, vfP2) >= 0, "every-participant-phase2-runs-on-success")
		}
		zzvf.Assert(vfCount(log, 0, vfRb) == 0, "no-rollback-on-success")
		zzvf.Reach("c16-commit-success")
	} else {
		zzvf.Assert(err != nil, "commit-reports-failure")
		zzvf.Assert(vfCount(log, 0, vfRb) >= 1, "sop-rolled-back-on-failure")
		for i := 1; i <= n; i++ {
			zzvf.Assert(vfCount(log, i, vfRb) >= 1, "every-participant-asked-to-roll-back")
			zzvf.Assert(vfFirst(log, i, vfP2) < 0, "no-participant-phase2-on-failure")
		}
		zzvf.Reach("c16-commit-failure")
	}
}

// VerifC16Commit: Commit with 0..3 participants, every call of every phase may fail.
func VerifC16Commit() {
	t, log, n := vfSetup()
	err := t.Commit(context.Background())
	vfCheckCommit(*log, n, err)
}

// VerifC16BeginCommit: Begin then (if it succeeded) Commit.
func VerifC16BeginCommit() {
	t, log, n := vfSetup()
	ctx := context.Background()
	if err := t.Begin(ctx); err != nil {
		// a failed Begin must not run any commit phase
		for i := 0; i <= n; i++ {
			zzvf.Assert(vfCount(*log, i, vfP1) == 0 && vfCount(*log, i, vfP2) == 0, "no-commit-phase-after-failed-begin")
		}
		zzvf.Reach("c16-begin-failed")
		return
	}
	for i := 0; i <= n; i++ {
		zzvf.Assert(vfCount(*log, i, vfBegin) == 1, "begin-reaches-every-participant-once")
	}
	start := len(*log)
	err := t.Commit(ctx)
	vfCheckCommit((*log)[start:], n, err)
	zzvf.Reach("c16-begin-ok")
}

// VerifC16Rollback: an explicit Rollback asks SOP and every participant, whatever fails.
func VerifC16Rollback() {
	t, log, n := vfSetup()
	err := t.Rollback(context.Background())
	anyFail := false
	for i := 0; i <= n; i++ {
		zzvf.Assert(vfCount(*log, i, vfRb) == 1, "rollback-reaches-everyone-once")
		k := vfFirst(*log, i, vfRb)
		if k >= 0 && !(*log)[k].ok {
			anyFail = true
		}
		zzvf.Assert(vfCount(*log, i, vfP2) == 0, "rollback-never-commits")
	}
	zzvf.Assert((err != nil) == anyFail, "rollback-error-iff-some-rollback-failed")
	zzvf.Reach("c16-rollback-end")
}
