#!/bin/bash
# collect_seed.sh <ID> [suffix]: copy /tmp/wt-<ID>/_seed to seeded/<ID>-<suffix|a>, remove the worktree
id=$1; suf=${2:-a}
src=/tmp/wt-$id/_seed
[ -d $src ] || { echo "no $src"; exit 1; }
mkdir -p /verif/seeded/$id-$suf
cp $src/patch.diff $src/meta.json $src/demo_path.txt /verif/seeded/$id-$suf/ 2>/dev/null
cp $src/*_test.go /verif/seeded/$id-$suf/ 2>/dev/null
git -C /repo worktree remove --force /tmp/wt-$id
git -C /repo worktree prune
ls /verif/seeded/$id-$suf
