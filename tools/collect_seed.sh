#!/bin/bash
# collect_seed.sh <ID>: copy /tmp/wt-<ID>/_seed to seeded/<ID>-a, remove worktree
id=$1
src=/tmp/wt-$id/_seed
[ -d $src ] || { echo "no $src"; exit 1; }
mkdir -p /verif/seeded/$id-a
cp $src/* /verif/seeded/$id-a/
git -C /repo worktree remove --force /tmp/wt-$id
git -C /repo worktree prune
ls /verif/seeded/$id-a
git -C /repo status --short | head
