#!/bin/bash
# seedtest2.sh <seed> <check> [gosmt args]: like seedtest.sh but on a private worktree (/tmp/repo-seed2), so /repo stays clean
R=/tmp/repo-seed2
[ -d $R ] || git -C /repo worktree add --detach $R HEAD >/dev/null 2>&1
seed=$1; chk=$2; shift 2
git -C $R checkout -q --detach $(git -C /repo rev-parse HEAD) 2>/dev/null
git -C $R checkout -- . ; git -C $R apply /verif/seeded/$seed/patch.diff || { echo "patch does not apply"; exit 9; }
cd /verif; VERIF_REPO=$R timeout 3000 ./bin/gosmt check $chk --tier quick -j 10 "$@" > /tmp/seedtest2-$seed.log 2>&1; rc=$?
git -C $R checkout -- .
grep "^counterexample\|^VIOLATION\|^check\|INCONCLUSIVE" /tmp/seedtest2-$seed.log | cut -c1-260 | head -6
echo "seed=$seed check=$chk exit=$rc"
