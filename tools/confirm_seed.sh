#!/bin/bash
# usage: tools/confirm_seed.sh <seed name> <test packages...>
# Confirms in a scratch worktree that the seeded change (a) compiles, (b) leaves the existing
# tests' pass/fail sets unchanged, (c) its demonstration fails with the change and passes without.
seed=$1; shift
pkgs="$@"
S=/verif/seeded/$seed
W=/tmp/confirm-$seed
rm -rf $W; git -C /repo worktree add --detach $W HEAD >/dev/null 2>&1 || exit 9
cd $W
demo=$(cat $S/demo_path.txt)
demopkg=./$(dirname $demo)
failing() { go test -vet=off -count=1 -json $pkgs 2>/dev/null | grep '"Action":"fail"' | grep '"Test"' | sed 's/.*"Package":"\([^"]*\)".*"Test":"\([^"]*\)".*/\1::\2/' | sort -u; }
failing > /tmp/confirm-$seed.base
cp $S/$(basename $demo) $W/$demo
go test -vet=off -count=1 -run 'Seed|Demo' $demopkg > /tmp/confirm-$seed.demo_base 2>&1; demo_base=$?
rm $W/$demo
git apply $S/patch.diff || { echo "patch failed"; exit 9; }
go build ./... > /tmp/confirm-$seed.build 2>&1; build=$?
failing > /tmp/confirm-$seed.mut
cp $S/$(basename $demo) $W/$demo
go test -vet=off -count=1 -run 'Seed|Demo' $demopkg > /tmp/confirm-$seed.demo_mut 2>&1; demo_mut=$?
same=no; cmp -s /tmp/confirm-$seed.base /tmp/confirm-$seed.mut && same=yes
cd /; git -C /repo worktree remove --force $W; git -C /repo worktree prune
res="seed=$seed build_rc=$build existing_tests_same_failset=$same (baseline failing: $(wc -l < /tmp/confirm-$seed.base)) demo_without_change_rc=$demo_base demo_with_change_rc=$demo_mut"
echo "$res"
echo "$res" > $S/confirmed.txt
