#!/bin/bash
# seedall.sh: apply every seeded change to /repo in turn, run the check(s) expected to catch it, revert.
# Result table: /verif/seeded/RESULTS.txt  (seed, check, applies?, exit code, first violation label)
cd /verif
R=${VERIF_REPO:-/repo}
out=/verif/seeded/RESULTS.txt
[ -n "$APPEND" ] || echo "# seed check applies exit first-violation (HEAD $(git -C $R log --format=%h -1), $(date -u +%FT%TZ))" > $out
for d in /verif/seeded/*/; do
  s=$(basename $d); id=${s%%-*}
  checks=$id
  case $s in C10-a) checks="C05";; C01-a) checks="C01 C07";; C10-b) checks="C10 C08";; esac
  [ -n "$1" ] && [[ ! " $* " =~ " $s " ]] && continue
  if ! git -C $R apply --check $d/patch.diff 2>/dev/null; then echo "$s - no - patch-does-not-apply" >> $out; continue; fi
  for c in $checks; do
    [ -f checks/$c.json ] || { echo "$s $c yes - no-check" >> $out; continue; }
    git -C $R apply $d/patch.diff
    VERIF_REPO=$R timeout 3000 ./bin/gosmt check $c --tier quick -j 14 > /tmp/seedall-$s-$c.log 2>&1; rc=$?
    git -C $R checkout -- .
    v=$(grep -m1 "^counterexample" /tmp/seedall-$s-$c.log | sed 's/.*label=\(.*\) pos=.*\[\(.*\)\]/\1 [\2]/' | cut -c1-120)
    echo "$s $c yes $rc $v" >> $out
  done
done
git -C $R status --short | head -3
echo ALLDONE >> $out
