#!/bin/sh
# usage: tools/seedtest.sh <seed dir name> <check id> [extra gosmt args]
# applies seeded/<name>/patch.diff to /repo, runs the check, reverts /repo.
seed=$1; id=$2; shift 2
cd /verif
git -C /repo apply /verif/seeded/$seed/patch.diff || { echo "patch does not apply"; exit 9; }
timeout 1800 ./bin/gosmt check $id "$@" > /tmp/seedtest-$seed.log 2>&1
rc=$?
git -C /repo checkout -- .
grep -E "^(VIOLATION|INCONCLUSIVE|KNOWN-FINDING|counterexample|check )" /tmp/seedtest-$seed.log | head -8
echo "seed=$seed check=$id exit=$rc"
