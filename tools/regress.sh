#!/bin/bash
# regress.sh <fix-diff> <check> [args]: temporarily reverts a fix in /repo's working tree, runs the check
# (expected: VIOLATION), restores the tree.
f=/verif/regress/$1; shift
git -C /repo apply -R $f || exit 9
timeout 3000 /verif/bin/gosmt check "$@" 2>&1 | grep "VIOLATION\|^check\|harness" | tail -6
git -C /repo checkout -- .
git -C /repo status --short | head -3
