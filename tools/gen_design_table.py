#!/usr/bin/env python3
# Regenerates the per-property table and the seeds table inside DESIGN.md from
# checks/*.json, evidence/*.json, known_findings.json and seeded/RESULTS.txt.
import json, glob, os, re
V='/verif'
kf=json.load(open(V+'/known_findings.json'))
openkf={}
for f in kf['findings']:
    if f['status']=='open': openkf.setdefault(f['property'],[]).append(f['id'])
fixed={}
for s in kf.get('fixed',[]):
    m=re.match(r'fixed: property=(\S+) (\S+)',s)
    if m: fixed.setdefault(m.group(1),[]).append(m.group(2))
rows=[]
for p in sorted(glob.glob(V+'/checks/C*.json')):
    c=json.load(open(p))
    if c.get('disabled'): continue
    i=c['id']
    ev={}
    try: ev=json.load(open(V+'/evidence/%s.json'%i))
    except Exception: pass
    cov=ev.get('coverage',{})
    hs=', '.join(h['func'].replace('Verif','') for h in c['harnesses'])
    b='; '.join(c.get('bounds',[]))
    res='%s paths, %s VCs, %ss' % (cov.get('paths_completed','?'), cov.get('vcs','?'), int(ev.get('wall_s',0)))
    notes=[]
    if i in openkf: notes.append('known: '+', '.join(openkf[i]))
    if i in fixed: notes.append('fixed: '+', '.join(fixed[i]))
    rows.append('| %s | %s | %s | %s | %s |' % (i, hs, b, res, '; '.join(notes) or 'holds'))
table='| id | harnesses (Verif…) | bounds (quick tier unless noted) | quick run | result |\n|---|---|---|---|---|\n'+'\n'.join(rows)
seeds=[]
try:
    for l in open(V+'/seeded/RESULTS.txt'):
        if l.startswith('#') or l.startswith('ALLDONE'): continue
        f=l.strip().split(' ',4)
        while len(f)<5: f.append('')
        seed,chk,app,rc,lab=f
        summ=''
        try: summ=json.load(open(V+'/seeded/%s/meta.json'%seed)).get('summary','')[:150].replace('|','/').replace('\n',' ')
        except Exception: pass
        verdict={'1':'caught','0':'MISSED','3':'inconclusive'}.get(rc,rc)
        seeds.append('| %s | %s | %s | %s | %s |' % (seed,chk,verdict,lab,summ))
except FileNotFoundError: pass
stable='| seed | check | verdict | first failing assertion | change (summary) |\n|---|---|---|---|---|\n'+'\n'.join(seeds)
d=open(V+'/DESIGN.md').read()
d=re.sub(r'<!-- TABLE:BEGIN -->.*?<!-- TABLE:END -->','<!-- TABLE:BEGIN -->\n'+table.replace('\\','\\\\')+'\n<!-- TABLE:END -->',d,flags=re.S)
d=re.sub(r'<!-- SEEDS:BEGIN -->.*?<!-- SEEDS:END -->','<!-- SEEDS:BEGIN -->\n'+stable.replace('\\','\\\\')+'\n<!-- SEEDS:END -->',d,flags=re.S)
open(V+'/DESIGN.md','w').write(d)
print(len(rows),'checks',len(seeds),'seed rows')
