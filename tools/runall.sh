#!/bin/bash
# runall.sh [tier]: run every claimed check sequentially on the current /repo tree; summary in /tmp/runall.log
tier=${1:-quick}
cd /verif
: > /tmp/runall.log
for c in $(python3 -c "import json;print(' '.join(x['property_id'] if 'property_id' in x else x['id'] for x in json.load(open('MANIFEST.json'))['checks']))"); do
  s=$(date +%s)
  timeout 7200 ./bin/gosmt check $c --tier $tier > /tmp/runall-$c.out 2>&1; rc=$?
  e=$(( $(date +%s) - s ))
  echo "$c rc=$rc ${e}s $(grep -c KNOWN-FINDING /tmp/runall-$c.out) known" >> /tmp/runall.log
done
echo ALLDONE >> /tmp/runall.log
