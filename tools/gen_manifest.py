#!/usr/bin/env python3
"""Regenerate /verif/MANIFEST.json from checks/*.json and not_applicable.json."""
import json, glob, os, sys
V = os.path.dirname(os.path.dirname(os.path.abspath(__file__)))
props = [json.loads(l) for l in open(os.path.join(V, 'properties.jsonl'))]
ids = [p['id'] for p in props]
na = json.load(open(os.path.join(V, 'not_applicable.json')))
checks = []
claimed = set()
for pid in ids:
    f = os.path.join(V, 'checks', pid + '.json')
    if not os.path.exists(f):
        continue
    c = json.load(open(f))
    if c.get('disabled'):
        continue
    claimed.add(pid)
    level = c.get('level', 'model_checking')
    entry = {
        'property_id': pid,
        'quick_cmd': './bin/gosmt check %s --tier quick' % pid,
        'evidence_file': '/verif/evidence/%s.json' % pid,
        'replay_cmd_template': './bin/gosmt replay {path}',
        'engine': 'gosmt',
        'level_claimed': {
            'category': level,
            'text': c.get('level_text', ''),
            'design_ref': c.get('design_ref', 'DESIGN.md section 5, ' + pid),
        },
        'level_note': c.get('level_note', '; '.join(c.get('assumptions', []))),
        'technique': c.get('technique', 'symbolic execution of go/ssa + SMT'),
    }
    if any('thorough' in (h.get('tiers') or ['quick', 'thorough']) for h in c['harnesses']):
        entry['thorough_cmd'] = './bin/gosmt check %s --tier thorough' % pid
    checks.append(entry)
nal = []
for pid in ids:
    if pid in claimed:
        continue
    nal.append({'property_id': pid, 'reason': na.get(pid, 'check not built yet (engine under construction)')})
m = {
    'version': 1,
    'setup_cmd': './setup.sh',
    'hooks': {
        'guard': 'verif',
        'enable': 'harnesses (//go:build verif) and the zzvf package enter /repo packages through go/packages and go test overlays with -tags=verif; /repo itself carries no hook commits',
        'baseline_off_cmd': 'for m in $(cat /w/out/gomods.txt); do MF=$(cd /repo/$m && . /w/out/goenv.sh && gomodflag); (cd /repo/$m && go test $MF -json -vet=off -count=1 -timeout 25m ./...); done',
        'source_commits': [],
        'add_only': True,
    },
    'engines': [{
        'name': 'gosmt', 'path': '/verif/engine', 'serves_properties': sorted(claimed),
        'kind_free_text': 'symbolic executor for go/ssa (fork of x/tools go/ssa/interp with SMT terms over a concrete heap), DART-style path enumeration with decision prefixes, callee path merging, z3 5.1 / z3 4.8 / cvc5 back ends over SMT-LIB2 pipes; encoding regenerated from /repo on every run',
    }],
    'checks': checks,
    'notes': 'Exit codes of gosmt check: 0 held within the stated bound (KNOWN-FINDING lines allowed), 1 + VIOLATION line for a natively reproduced unlisted violation, 3 INCONCLUSIVE (bound exceeded, solver unknown, unmodelled function, vacuity, non-reproducing counterexample).',
    'not_applicable': nal,
}
json.dump(m, open(os.path.join(V, 'MANIFEST.json'), 'w'), indent=1)
print('claimed', len(checks), 'not applicable', len(nal))
