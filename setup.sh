#!/bin/sh
# Build the gosmt engine offline from files on disk.
set -e
cd "$(dirname "$0")/engine"
export PATH=/opt/veriftools/go1.26.8/bin:$PATH GOTOOLCHAIN=local GOFLAGS=-mod=mod GOPROXY=off GOSUMDB=off
mkdir -p ../bin
go build -o ../bin/gosmt ./cmd/gosmt
