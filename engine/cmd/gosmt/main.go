// gosmt: solver-based checks of SharedCode/sop properties over go/ssa.
package main

import (
	"encoding/json"
	"flag"
	"fmt"
	"os"
	"os/exec"
	"path/filepath"
	"regexp"
	"runtime/debug"
	"runtime/pprof"
	"sort"
	"strconv"
	"strings"
	"time"

	"golang.org/x/tools/go/packages"
	"golang.org/x/tools/go/ssa"
	"golang.org/x/tools/go/ssa/ssautil"

	"gosmt/smt"
	"gosmt/symx"
)

type HarnessCfg struct {
	Pkg      string   `json:"pkg"`  // import path
	Func     string   `json:"func"` // function name
	Tiers    []string `json:"tiers"`
	MaxPaths int      `json:"max_paths"`
	Replay   string   `json:"replay"` // native (default) | none
	Note     string   `json:"note"`
}

type CheckCfg struct {
	ID        string            `json:"id"`
	Dir       string            `json:"dir"`  // directory under /repo to load from (module root), default "."
	Load      []string          `json:"load"` // package patterns
	Overlay   map[string]string `json:"overlay"`
	Harnesses []HarnessCfg      `json:"harnesses"`
	InitPkgs  []string          `json:"init_pkgs"`
	DenyPkgs  []string          `json:"deny_pkgs"`
	Stubs     map[string]string `json:"stubs"`
	Merge     []string          `json:"merge"`
	Budgets   struct {
		MaxSteps        int64 `json:"max_steps"`
		MaxDecisions    int   `json:"max_decisions"`
		ConcretiseCap   int   `json:"concretise_cap"`
		SolverTimeoutMs int   `json:"solver_timeout_ms"`
		MaxPaths        int   `json:"max_paths"`
		TimeBudgetS     int   `json:"time_budget_s"`
	} `json:"budgets"`
	Level       string   `json:"level"`
	Bounds      []string `json:"bounds"`
	Assumptions []string `json:"assumptions"`
	Technique   string   `json:"technique"`
	CrossCheck  bool     `json:"cross_check"`
}

type KnownFinding struct {
	ID       string `json:"id"`
	Property string `json:"property"`
	Status   string `json:"status"` // open | fixed
	What     string `json:"what"`
	Commit   string `json:"commit,omitempty"`
}

type KnownFile struct {
	Findings []KnownFinding `json:"findings"`
	Fixed    []string       `json:"fixed"`
}

var validatedSamples int

const rootModule = "github.com/sharedcode/sop"

var verifDir = "/verif"
var repoDir = "/repo"

func main() {
	if d := os.Getenv("VERIF_DIR"); d != "" {
		verifDir = d
	}
	if d := os.Getenv("VERIF_REPO"); d != "" {
		repoDir = d
	}
	// The SSA program is a large live heap and the interpreter allocates freely: collect rarely.
	debug.SetGCPercent(800)
	// /repo needs go >= 1.26.4: use the pre-installed go1.26.8 toolchain for go list / go test.
	os.Setenv("PATH", "/opt/veriftools/go1.26.8/bin:"+os.Getenv("PATH"))
	os.Setenv("GOTOOLCHAIN", "local")
	os.Unsetenv("GOFLAGS")
	os.Unsetenv("GOSUMDB")
	if len(os.Args) < 2 {
		fmt.Fprintln(os.Stderr, "usage: gosmt check <ID> [--tier quick|thorough] | gosmt replay <file>")
		os.Exit(2)
	}
	switch os.Args[1] {
	case "check":
		os.Exit(cmdCheck(os.Args[2:]))
	case "replay":
		os.Exit(cmdReplay(os.Args[2:]))
	default:
		fmt.Fprintln(os.Stderr, "unknown command", os.Args[1])
		os.Exit(2)
	}
}

func goEnv() []string {
	env := []string{}
	for _, e := range os.Environ() {
		if strings.HasPrefix(e, "GOFLAGS=") || strings.HasPrefix(e, "GOTOOLCHAIN=") || strings.HasPrefix(e, "PATH=") || strings.HasPrefix(e, "GOSUMDB=") || strings.HasPrefix(e, "GOWORK=") {
			continue
		}
		env = append(env, e)
	}
	env = append(env, "PATH=/opt/veriftools/go1.26.8/bin:"+os.Getenv("PATH"), "GOTOOLCHAIN=local", "GOPROXY=off", "GOFLAGS=")
	return env
}

func loadCfg(id string) (*CheckCfg, error) {
	b, err := os.ReadFile(filepath.Join(verifDir, "checks", id+".json"))
	if err != nil {
		return nil, err
	}
	var c CheckCfg
	if err := json.Unmarshal(b, &c); err != nil {
		return nil, fmt.Errorf("checks/%s.json: %v", id, err)
	}
	if c.Dir == "" {
		c.Dir = "."
	}
	return &c, nil
}

func overlayMap(c *CheckCfg) (map[string][]byte, map[string]string, error) {
	ov := map[string][]byte{}
	paths := map[string]string{}
	add := func(repoRel, verifRel string) error {
		src := filepath.Join(verifDir, verifRel)
		b, err := os.ReadFile(src)
		if err != nil {
			return err
		}
		dst := filepath.Join(repoDir, repoRel)
		ov[dst] = b
		paths[dst] = src
		return nil
	}
	// zzvf lives inside the module being loaded
	zz := "zzvf" // always in the root module (github.com/sharedcode/sop/zzvf); other workspace modules import it from there
	for _, f := range []string{"vf.go", "bits.go"} {
		if err := add(filepath.Join(zz, f), filepath.Join("harness/zzvf", f)); err != nil {
			return nil, nil, err
		}
	}
	for k, v := range c.Overlay {
		if err := add(k, v); err != nil {
			return nil, nil, err
		}
	}
	return ov, paths, nil
}

func loadProgram(c *CheckCfg) (*ssa.Program, []*packages.Package, error) {
	ov, _, err := overlayMap(c)
	if err != nil {
		return nil, nil, err
	}
	cfg := &packages.Config{
		Mode:       packages.LoadAllSyntax,
		Dir:        filepath.Join(repoDir, c.Dir),
		Env:        goEnv(),
		BuildFlags: []string{"-tags=verif"},
		Overlay:    ov,
	}
	pats := append([]string{}, c.Load...)
	pkgs, err := packages.Load(cfg, pats...)
	if err != nil {
		return nil, nil, err
	}
	nerr := 0
	packages.Visit(pkgs, nil, func(p *packages.Package) {
		for _, e := range p.Errors {
			fmt.Fprintf(os.Stderr, "load error: %s: %v\n", p.PkgPath, e)
			nerr++
		}
	})
	if nerr > 0 {
		return nil, nil, fmt.Errorf("%d package load errors (does /repo build?)", nerr)
	}
	prog, _ := ssautil.AllPackages(pkgs, ssa.InstantiateGenerics)
	prog.Build()
	return prog, pkgs, nil
}

func contains(l []string, s string) bool {
	for _, x := range l {
		if x == s {
			return true
		}
	}
	return false
}

var reachRe = regexp.MustCompile(`zzvf\.Reach\("([^"]+)"\)`)
var assertRe = regexp.MustCompile(`zzvf\.Assert\((?s:.*?),\s*"([^"]+)"\)`)

func cmdCheck(args []string) int {
	fs := flag.NewFlagSet("check", flag.ExitOnError)
	tier := fs.String("tier", "quick", "quick|thorough")
	workers := fs.Int("j", 0, "workers")
	solverKind := fs.String("solver", "z3new", "primary solver")
	trace := fs.Bool("trace", false, "trace calls")
	only := fs.String("only", "", "run only this harness function")
	noReplay := fs.Bool("no-replay", false, "skip native replay of counterexamples")
	cpuprof := fs.String("cpuprofile", "", "write a CPU profile of the exploration to this file")
	var id string
	if len(args) > 0 && !strings.HasPrefix(args[0], "-") {
		id = args[0]
		args = args[1:]
	}
	fs.Parse(args)
	if id == "" && fs.NArg() > 0 {
		id = fs.Arg(0)
	}
	if t := os.Getenv("VERIF_TIER"); t != "" && !isFlagSet(fs, "tier") {
		*tier = t
	}
	seed := 0
	if s := os.Getenv("VERIF_SEED"); s != "" {
		seed, _ = strconv.Atoi(s)
	}
	start := time.Now()
	c, err := loadCfg(id)
	if err != nil {
		fmt.Fprintln(os.Stderr, "config:", err)
		return 3
	}
	kf := loadKnown()
	openIDs := map[string]KnownFinding{}
	for _, f := range kf.Findings {
		if f.Status == "open" && f.Property == c.ID {
			openIDs[f.ID] = f
		}
	}
	prog, _, err := loadProgram(c)
	if err != nil {
		fmt.Fprintln(os.Stderr, "INCONCLUSIVE: cannot load /repo:", err)
		writeEvidence(c, *tier, seed, nil, []string{"load failed: " + err.Error()}, nil, time.Since(start), 0, nil)
		return 3
	}
	loadT := time.Since(start)
	if *cpuprof != "" {
		if f, err := os.Create(*cpuprof); err == nil {
			pprof.StartCPUProfile(f)
			defer pprof.StopCPUProfile()
		}
	}

	mcfg := &symx.Config{
		InitPkgs:      map[string]bool{},
		DenyPkgs:      append([]string{"runtime", "reflect", "internal/reflectlite", "os", "syscall", "net", "unsafe", "internal/abi", "internal/bytealg", "internal/runtime"}, c.DenyPkgs...),
		Stubs:         c.Stubs,
		MaxSteps:      c.Budgets.MaxSteps,
		MaxDecisions:  c.Budgets.MaxDecisions,
		ConcretiseCap: c.Budgets.ConcretiseCap,
		SolverTimeout: time.Duration(c.Budgets.SolverTimeoutMs) * time.Millisecond,
		Trace:         *trace,
		OpenKnown:     map[string]bool{},
		Thorough:      *tier == "thorough",
	}
	for id := range openIDs {
		mcfg.OpenKnown[id] = true
	}
	mcfg.Merge = map[string]bool{}
	for _, f := range c.Merge {
		mcfg.Merge[f] = true
	}
	if mcfg.MaxSteps == 0 {
		mcfg.MaxSteps = 20_000_000
	}
	if mcfg.MaxDecisions == 0 {
		mcfg.MaxDecisions = 4000
	}
	if mcfg.ConcretiseCap == 0 {
		mcfg.ConcretiseCap = 80
	}
	if mcfg.SolverTimeout == 0 {
		mcfg.SolverTimeout = 30 * time.Second
	}
	for _, p := range c.InitPkgs {
		mcfg.InitPkgs[p] = true
	}

	type hres struct {
		h  HarnessCfg
		st *symx.ExploreStats
	}
	var results []hres
	var inconclusive []string
	var violations []symx.Violation
	knownHit := map[string]bool{}
	for _, h := range c.Harnesses {
		if len(h.Tiers) > 0 && !contains(h.Tiers, *tier) {
			continue
		}
		if *only != "" && h.Func != *only {
			continue
		}
		pkg := prog.ImportedPackage(h.Pkg)
		if pkg == nil {
			inconclusive = append(inconclusive, "harness package not loaded: "+h.Pkg)
			continue
		}
		fn := pkg.Func(h.Func)
		if fn == nil {
			inconclusive = append(inconclusive, "harness function not found: "+h.Pkg+"."+h.Func)
			continue
		}
		mp := h.MaxPaths
		if mp == 0 {
			mp = c.Budgets.MaxPaths
		}
		if mp == 0 {
			mp = 200000
		}
		opts := symx.ExploreOpts{Workers: *workers, MaxPaths: mp, SolverKind: *solverKind, Cfg: mcfg, SampleN: 3, Harness: h.Func}
		tb := c.Budgets.TimeBudgetS
		if tb == 0 {
			// generous: the budget only turns a runaway into INCONCLUSIVE, it must not trip on a loaded machine
			tb = 1800
			if *tier == "thorough" {
				tb = 10800
			}
		}
		opts.Deadline = time.Now().Add(time.Duration(tb) * time.Second)
		st := symx.Explore(prog, pkg, fn, opts)
		results = append(results, hres{h, st})
		for _, m := range st.Inconclusive {
			inconclusive = append(inconclusive, h.Func+": "+m)
		}
		for k := range st.Known {
			knownHit[strings.SplitN(k, "|", 2)[0]] = true
		}
		violations = append(violations, st.Violations...)
		// vacuity: every Reach / Assert label in the harness source must be hit
		need := requiredLabels(c, h)
		for _, l := range need.reach {
			if st.Reach[l] == 0 {
				inconclusive = append(inconclusive, fmt.Sprintf("%s: vacuity: Reach(%q) never satisfied", h.Func, l))
			}
		}
		fmt.Printf("harness %s: paths=%d completed=%d pruned=%d vcs=%d/%d reach=%v fails=%v known=%v wall=%.1fs\n",
			h.Func, st.Paths, st.Completed, st.Pruned, st.VCsUnsat, st.VCs, st.Reach, st.AssertFail, st.Known, st.Wall.Seconds())
	}
	if len(results) == 0 {
		inconclusive = append(inconclusive, "no harness selected for tier "+*tier)
	}

	// translator validation: sampled clean paths replayed through the natively compiled harness
	validatedSamples = 0
	if !*noReplay {
		var vsts []*symx.ExploreStats
		var vhs []HarnessCfg
		for _, r := range results {
			vsts = append(vsts, r.st)
			vhs = append(vhs, r.h)
		}
		v, problems := validateSamples(c, vhs, vsts, *tier)
		validatedSamples = v
		inconclusive = append(inconclusive, problems...)
	}

	// replay counterexamples natively
	exit := 0
	os.MkdirAll(filepath.Join(verifDir, "replays"), 0o755)
	var violLines []string
	confirmed := 0
	// Per failing label several counterexamples (different paths) may be tried natively: the first that
	// reproduces is reported. One that does not reproduce depends on a modelling artefact (e.g. a value
	// of an uninterpreted hash that the real function does not take); the label is inconclusive only
	// if none of the tried ones reproduces.
	const maxLabels, maxTries = 6, 6
	doneLabel := map[string]bool{}
	tries := map[string]int{}
	notReproduced := map[string]string{}
	for i, v := range violations {
		lk := v.Harness + "|" + v.Kind + "|" + v.Label
		if doneLabel[lk] || tries[lk] >= maxTries || (tries[lk] == 0 && len(tries) >= maxLabels) {
			continue
		}
		tries[lk]++
		path := filepath.Join(verifDir, "replays", fmt.Sprintf("%s-%d.json", c.ID, i))
		h := findHarness(c, v.Harness)
		writeReplayFile(path, c, h, v, *tier)
		status := "not-replayed"
		if h.Replay != "none" && !*noReplay {
			ok, out := nativeReplay(c, h, path, v)
			if ok {
				status = "reproduced"
			} else {
				notReproduced[lk] = fmt.Sprintf("counterexample for %s/%s did not reproduce natively (engine or stub fault): %s", v.Harness, v.Label, lastLines(out, 6))
				continue
			}
		}
		doneLabel[lk] = true
		delete(notReproduced, lk)
		confirmed++
		fmt.Printf("counterexample %s: harness=%s kind=%s label=%s %s pos=%s [%s]\n", path, v.Harness, v.Kind, v.Label, v.Msg, v.Pos, status)
		violLines = append(violLines, fmt.Sprintf("VIOLATION property=%s replay=%s", c.ID, path))
	}
	for lk, m := range notReproduced {
		if !doneLabel[lk] {
			inconclusive = append(inconclusive, m)
		}
	}
	for id := range knownHit {
		if f, ok := openIDs[id]; ok {
			fmt.Printf("KNOWN-FINDING: property=%s %s %s\n", c.ID, f.ID, f.What)
		}
	}
	if len(violLines) > 0 {
		for _, l := range violLines[:1] {
			fmt.Println(l)
		}
		exit = 1
	} else if len(inconclusive) > 0 {
		for _, m := range inconclusive {
			fmt.Println("INCONCLUSIVE:", m)
		}
		exit = 3
	}
	var sts []*symx.ExploreStats
	var hs []HarnessCfg
	for _, r := range results {
		sts = append(sts, r.st)
		hs = append(hs, r.h)
	}
	writeEvidence(c, *tier, seed, sts, inconclusive, hs, time.Since(start), confirmed, knownHit)
	fmt.Printf("check %s tier=%s: exit=%d load=%.1fs total=%.1fs\n", c.ID, *tier, exit, loadT.Seconds(), time.Since(start).Seconds())
	return exit
}

func isFlagSet(fs *flag.FlagSet, name string) bool {
	set := false
	fs.Visit(func(f *flag.Flag) {
		if f.Name == name {
			set = true
		}
	})
	return set
}

func lastLines(s string, n int) string {
	ls := strings.Split(strings.TrimSpace(s), "\n")
	if len(ls) > n {
		ls = ls[len(ls)-n:]
	}
	return strings.Join(ls, " | ")
}

func findHarness(c *CheckCfg, fn string) HarnessCfg {
	for _, h := range c.Harnesses {
		if h.Func == fn {
			return h
		}
	}
	return HarnessCfg{}
}

type labels struct{ reach, asserts []string }

// requiredLabels scans the harness function's source for Reach labels.
func requiredLabels(c *CheckCfg, h HarnessCfg) labels {
	var l labels
	for _, src := range c.Overlay {
		b, err := os.ReadFile(filepath.Join(verifDir, src))
		if err != nil {
			continue
		}
		text := string(b)
		// restrict to the body of the harness function (up to the next top-level func)
		idx := strings.Index(text, "func "+h.Func+"(")
		if idx < 0 {
			continue
		}
		body := text[idx:]
		if e := strings.Index(body[1:], "\nfunc "); e >= 0 {
			body = body[:e+1]
		}
		for _, m := range reachRe.FindAllStringSubmatch(body, -1) {
			l.reach = append(l.reach, m[1])
		}
	}
	return l
}

func loadKnown() KnownFile {
	var kf KnownFile
	b, err := os.ReadFile(filepath.Join(verifDir, "known_findings.json"))
	if err == nil {
		json.Unmarshal(b, &kf)
	}
	return kf
}

type replayJSON struct {
	Property string              `json:"property"`
	Harness  string              `json:"harness"`
	Pkg      string              `json:"pkg"`
	Kind     string              `json:"kind"`
	Label    string              `json:"label"`
	Msg      string              `json:"msg"`
	Pos      string              `json:"pos"`
	Prefix   string              `json:"decisions"`
	Tier     string              `json:"tier"`
	Inputs   map[string]uint64   `json:"inputs"`
	Bytes    map[string][]uint64 `json:"bytes"`
	Strs     map[string]string   `json:"strs"`
	Choices  map[string]int      `json:"choices"`
	How      string              `json:"how_to_replay"`
}

func writeReplayFile(path string, c *CheckCfg, h HarnessCfg, v symx.Violation, tier string) {
	r := replayJSON{Property: c.ID, Harness: v.Harness, Pkg: h.Pkg, Kind: v.Kind, Label: v.Label, Msg: v.Msg, Pos: v.Pos, Prefix: v.Prefix, Tier: tier,
		Inputs: map[string]uint64{}, Bytes: map[string][]uint64{}, Strs: map[string]string{}, Choices: map[string]int{},
		How: "gosmt replay " + path + "  (runs the harness natively with these inputs via go test -overlay against /repo)"}
	// opaque strings: equal model values get equal strings; literals keep their text
	litOf := map[uint64]string{}
	for k, val := range v.Model {
		if strings.HasPrefix(k, "@lit:") {
			litOf[val] = strings.TrimPrefix(k, "@lit:")
		}
	}
	for _, in := range v.Inputs {
		switch {
		case strings.HasPrefix(in.Kind, "bytes:") || strings.HasPrefix(in.Kind, "bytestring:"):
			bs := make([]uint64, len(in.Vars))
			for i, vn := range in.Vars {
				bs[i] = v.Model[vn]
			}
			r.Bytes[in.Name] = bs
		case in.Kind == "str":
			val, ok := v.Model[in.Vars[0]]
			if !ok {
				r.Strs[in.Name] = "s!" + in.Name
			} else if s, isLit := litOf[val]; isLit {
				r.Strs[in.Name] = s
			} else {
				r.Strs[in.Name] = fmt.Sprintf("s!%d", val)
			}
		case strings.HasPrefix(in.Kind, "choose:"):
			eq := strings.LastIndex(in.Kind, "=")
			n, _ := strconv.Atoi(in.Kind[eq+1:])
			r.Choices[in.Name] = n
		default:
			if len(in.Vars) == 1 {
				r.Inputs[in.Name] = v.Model[in.Vars[0]]
			}
		}
	}
	b, _ := json.MarshalIndent(r, "", " ")
	os.WriteFile(path, b, 0o644)
}

// nativeReplay runs the harness natively with the model's inputs.
func nativeReplay(c *CheckCfg, h HarnessCfg, replayPath string, v symx.Violation) (bool, string) {
	_, paths, err := overlayMap(c)
	if err != nil {
		return false, err.Error()
	}
	tmp, err := os.MkdirTemp("", "gosmt-replay-")
	if err != nil {
		return false, err.Error()
	}
	defer os.RemoveAll(tmp)
	// package directory and name of the harness package
	rel := strings.TrimPrefix(h.Pkg, modulePathOf(c))
	rel = strings.TrimPrefix(rel, "/")
	pkgDir := filepath.Join(repoDir, c.Dir, rel)
	pkgName := packageNameOf(c, h)
	testSrc := fmt.Sprintf(`//go:build verif

package %s

import (
	"testing"
	"%s/zzvf"
)

func TestZZVerifReplay(t *testing.T) {
	pruned := zzvf.RunReplay(func() { %s() })
	if pruned {
		t.Log("pruned by Assume")
	}
	if len(zzvf.Failed) > 0 {
		t.Fatalf("ZZVF-FAILED %%v", zzvf.Failed)
	}
}
`, pkgName, rootModule, h.Func)
	testFile := filepath.Join(tmp, "zz_verif_replay_test.go")
	os.WriteFile(testFile, []byte(testSrc), 0o644)
	repl := map[string]string{}
	for dst, src := range paths {
		repl[dst] = src
	}
	repl[filepath.Join(pkgDir, "zz_verif_replay_test.go")] = testFile
	ovb, _ := json.Marshal(map[string]any{"Replace": repl})
	ovFile := filepath.Join(tmp, "overlay.json")
	os.WriteFile(ovFile, ovb, 0o644)
	cmd := exec.Command("go", "test", "-tags", "verif", "-vet=off", "-count=1", "-overlay", ovFile, "-run", "^TestZZVerifReplay$", "-timeout", "300s", "./"+rel)
	cmd.Dir = filepath.Join(repoDir, c.Dir)
	scratch := filepath.Join(tmp, "scratch") // harnesses create their scratch directories here
	os.MkdirAll(scratch, 0o755)
	cmd.Env = append(goEnv(), "VERIF_REPLAY="+replayPath, "TMPDIR="+scratch)
	out, err := cmd.CombinedOutput()
	s := string(out)
	if v.Kind == "panic" {
		return strings.Contains(s, "ZZVF-PANIC") || strings.Contains(s, "panic:"), s
	}
	return strings.Contains(s, "ZZVF-ASSERT-FAIL "+v.Label), s
}

func modulePathOf(c *CheckCfg) string {
	b, err := os.ReadFile(filepath.Join(repoDir, c.Dir, "go.mod"))
	if err != nil {
		return ""
	}
	for _, l := range strings.Split(string(b), "\n") {
		if strings.HasPrefix(l, "module ") {
			return strings.TrimSpace(strings.TrimPrefix(l, "module "))
		}
	}
	return ""
}

func packageNameOf(c *CheckCfg, h HarnessCfg) string {
	for dst, src := range c.Overlay {
		_ = dst
		b, err := os.ReadFile(filepath.Join(verifDir, src))
		if err != nil || !strings.Contains(string(b), "func "+h.Func+"(") {
			continue
		}
		for _, l := range strings.Split(string(b), "\n") {
			if strings.HasPrefix(l, "package ") {
				return strings.TrimSpace(strings.TrimPrefix(l, "package "))
			}
		}
	}
	return filepath.Base(h.Pkg)
}

func cmdReplay(args []string) int {
	if len(args) < 1 {
		fmt.Fprintln(os.Stderr, "usage: gosmt replay <file>")
		return 2
	}
	b, err := os.ReadFile(args[0])
	if err != nil {
		fmt.Fprintln(os.Stderr, err)
		return 2
	}
	var r replayJSON
	if err := json.Unmarshal(b, &r); err != nil {
		fmt.Fprintln(os.Stderr, err)
		return 2
	}
	c, err := loadCfg(r.Property)
	if err != nil {
		fmt.Fprintln(os.Stderr, err)
		return 2
	}
	h := findHarness(c, r.Harness)
	abs, _ := filepath.Abs(args[0])
	ok, out := nativeReplay(c, h, abs, symx.Violation{Kind: r.Kind, Label: r.Label})
	fmt.Println(out)
	if ok {
		fmt.Printf("REPRODUCED property=%s harness=%s label=%s\n", r.Property, r.Harness, r.Label)
		return 1
	}
	fmt.Println("not reproduced")
	return 0
}

func writeEvidence(c *CheckCfg, tier string, seed int, sts []*symx.ExploreStats, inconclusive []string, hs []HarnessCfg, wall time.Duration, violations int, knownHit map[string]bool) {
	level := c.Level
	if level == "" {
		level = "model_checking"
	}
	paths, decisions, vcs, vcsUnsat, completed, pruned := 0, 0, 0, 0, 0, 0
	var steps int64
	covered := map[string]int{}
	intr := map[string]int{}
	solver := map[string]map[string]any{}
	var samples []any
	reach := map[string]int{}
	asserts := map[string]int{}
	fails := map[string]int{}
	perHarness := []map[string]any{}
	for i, st := range sts {
		paths += st.Paths
		decisions += st.Decisions
		vcs += st.VCs
		vcsUnsat += st.VCsUnsat
		completed += st.Completed
		pruned += st.Pruned
		steps += st.Steps
		for k, v := range st.Covered {
			covered[k] += v
		}
		for k, v := range st.Intrinsics {
			intr[k] += v
		}
		for k, v := range st.Reach {
			reach[k] += v
		}
		for k, v := range st.AssertOK {
			asserts[k] += v
		}
		for k, v := range st.AssertFail {
			fails[k] += v
		}
		for k, s := range st.Solver {
			e := solver[k]
			if e == nil {
				e = map[string]any{"queries": 0, "sat": 0, "unsat": 0, "unknown": 0, "errors": 0, "cache_hits": 0, "time_s": 0.0, "cmd": smt.CommandLine(k)}
				solver[k] = e
			}
			e["queries"] = e["queries"].(int) + s.Queries
			e["sat"] = e["sat"].(int) + s.Sat
			e["unsat"] = e["unsat"].(int) + s.Unsat
			e["unknown"] = e["unknown"].(int) + s.Unknown
			e["errors"] = e["errors"].(int) + s.Errors
			e["cache_hits"] = e["cache_hits"].(int) + s.CacheHit
			e["time_s"] = e["time_s"].(float64) + s.Time.Seconds()
		}
		for _, s := range st.Samples {
			s["harness"] = hs[i].Func
			samples = append(samples, s)
		}
		perHarness = append(perHarness, map[string]any{"harness": hs[i].Func, "paths": st.Paths, "completed": st.Completed, "pruned_by_assume": st.Pruned,
			"max_decision_depth": st.MaxDepth, "vcs": st.VCs, "vcs_unsat": st.VCsUnsat, "wall_s": st.Wall.Seconds(), "note": hs[i].Note})
	}
	var encoded, deps []string
	for f := range covered {
		if strings.Contains(f, "github.com/sharedcode/sop") && !strings.Contains(f, "/zzvf.") && !strings.Contains(f, "Verif") {
			encoded = append(encoded, f)
		} else if !strings.Contains(f, "github.com/sharedcode/sop") {
			deps = append(deps, f)
		}
	}
	sort.Strings(encoded)
	sort.Strings(deps)
	if len(deps) > 60 {
		deps = append(deps[:60], fmt.Sprintf("... and %d more", len(deps)-60))
	}
	var stubs []string
	for k := range intr {
		stubs = append(stubs, k)
	}
	sort.Strings(stubs)
	if len(samples) == 0 {
		samples = append(samples, map[string]any{"note": "no completed path"})
	}
	var kh []string
	for k := range knownHit {
		kh = append(kh, k)
	}
	sort.Strings(kh)
	cov := map[string]any{
		"states":                        max1(paths),
		"transitions":                   max1(decisions),
		"traces_validated_against_impl": validatedSamples + violations,
		"sampled_paths_replayed_natively": validatedSamples,
		"counterexamples_replayed_natively": violations,
		"samples":                       samples,
		"explanation":                   "states = feasible paths explored by symbolic execution of the real code (go/ssa) ; transitions = solver-decided choice points; every path's verification conditions are decided by the SMT solver",
		"paths_completed":               completed,
		"paths_pruned_by_assume":        pruned,
		"instructions_interpreted":      steps,
		"vcs":                           vcs,
		"vcs_unsat":                     vcsUnsat,
		"reach_witnesses":               reach,
		"asserts_discharged":            asserts,
		"asserts_failed":                fails,
		"functions_encoded":             encoded,
		"deps_from_source":              deps,
		"stubs_hit":                     stubs,
		"bounds":                        c.Bounds,
		"solver":                        solver,
		"known_findings_matched":        kh,
		"inconclusive":                  inconclusive,
		"harnesses":                     perHarness,
		"technique":                     c.Technique,
	}
	if level == "proof" {
		cov["obligations"] = max1(vcs)
		cov["discharged"] = vcsUnsat
		cov["checker_cmd"] = smt.CommandLine("z3new")
		cov["trusted_base"] = c.Assumptions
	}
	ev := map[string]any{
		"property_id": c.ID,
		"tier":        tier,
		"seed":        seed,
		"level":       level,
		"coverage":    cov,
		"assumptions": c.Assumptions,
		"wall_s":      wall.Seconds(),
		"violations":  violations,
	}
	b, _ := json.MarshalIndent(ev, "", " ")
	evDir := filepath.Join(verifDir, "evidence")
	if repoDir != "/repo" {
		// a run against another checkout (seeded-change tests) must not overwrite the evidence of /repo
		evDir = filepath.Join(os.TempDir(), "gosmt-evidence-other-checkout")
	}
	os.MkdirAll(evDir, 0o755)
	os.WriteFile(filepath.Join(evDir, c.ID+".json"), b, 0o644)
}

func max1(n int) int {
	if n < 1 {
		return 1
	}
	return n
}
