package main

import (
	"encoding/json"
	"fmt"
	"os"
	"os/exec"
	"path/filepath"
	"strings"

	"gosmt/symx"
)

// validateSamples is the translator validation: for sampled feasible paths on which every
// assertion held symbolically, a model of the path condition is replayed through the
// natively compiled harness; the native run must satisfy every Assume and pass every
// assertion too. A disagreement means the engine (or a stub) misrepresents the code.
func validateSamples(c *CheckCfg, hs []HarnessCfg, sts []*symx.ExploreStats, tier string) (validated int, problems []string) {
	type item struct {
		h    HarnessCfg
		file string
	}
	byPkg := map[string][]item{}
	tmp, err := os.MkdirTemp("", "gosmt-validate-")
	if err != nil {
		return 0, nil
	}
	defer os.RemoveAll(tmp)
	n := 0
	for i, st := range sts {
		if hs[i].Replay == "none" {
			continue
		}
		for _, s := range st.CleanSamples {
			f := filepath.Join(tmp, fmt.Sprintf("sample-%d.json", n))
			n++
			writeReplayFile(f, c, hs[i], s, tier)
			byPkg[hs[i].Pkg] = append(byPkg[hs[i].Pkg], item{hs[i], f})
		}
	}
	if n == 0 {
		return 0, nil
	}
	_, paths, err := overlayMap(c)
	if err != nil {
		return 0, []string{err.Error()}
	}
	mod := modulePathOf(c)
	for pkg, items := range byPkg {
		rel := strings.TrimPrefix(strings.TrimPrefix(pkg, mod), "/")
		pkgDir := filepath.Join(repoDir, c.Dir, rel)
		pkgName := packageNameOf(c, items[0].h)
		var cases strings.Builder
		funcs := map[string]bool{}
		for _, it := range items {
			if !funcs[it.h.Func] {
				funcs[it.h.Func] = true
				fmt.Fprintf(&cases, "\t\t%q: %s,\n", it.h.Func, it.h.Func)
			}
		}
		testSrc := fmt.Sprintf(`//go:build verif

package %s

import (
	"fmt"
	"os"
	"strings"
	"testing"
	"%s/zzvf"
)

func TestZZVerifValidate(t *testing.T) {
	harness := map[string]func(){
%s	}
	for _, item := range strings.Split(os.Getenv("VERIF_VALIDATE"), ";") {
		kv := strings.SplitN(item, "=", 2)
		if len(kv) != 2 {
			continue
		}
		if err := zzvf.LoadReplayFile(kv[1]); err != nil {
			t.Fatal(err)
		}
		pruned := zzvf.RunReplay(harness[kv[0]])
		fmt.Printf("ZZVF-VALIDATED %%s pruned=%%v failed=%%d\n", kv[1], pruned, len(zzvf.Failed))
	}
}
`, pkgName, rootModule, cases.String())
		testFile := filepath.Join(tmp, "zz_verif_validate_test.go")
		os.WriteFile(testFile, []byte(testSrc), 0o644)
		repl := map[string]string{}
		for dst, src := range paths {
			repl[dst] = src
		}
		repl[filepath.Join(pkgDir, "zz_verif_validate_test.go")] = testFile
		ovb, _ := json.Marshal(map[string]any{"Replace": repl})
		ovFile := filepath.Join(tmp, "overlay.json")
		os.WriteFile(ovFile, ovb, 0o644)
		var env []string
		for _, it := range items {
			env = append(env, it.h.Func+"="+it.file)
		}
		cmd := exec.Command("go", "test", "-tags", "verif", "-vet=off", "-count=1", "-v", "-overlay", ovFile, "-run", "^TestZZVerifValidate$", "-timeout", "300s", "./"+rel)
		cmd.Dir = filepath.Join(repoDir, c.Dir)
		scratch := filepath.Join(tmp, "scratch")
		os.MkdirAll(scratch, 0o755)
		cmd.Env = append(goEnv(), "VERIF_VALIDATE="+strings.Join(env, ";"), "TMPDIR="+scratch)
		out, _ := cmd.CombinedOutput()
		s := string(out)
		for _, it := range items {
			want := "ZZVF-VALIDATED " + it.file + " pruned=false failed=0"
			if strings.Contains(s, want) {
				validated++
			} else {
				line := ""
				for _, l := range strings.Split(s, "\n") {
					if strings.Contains(l, it.file) {
						line = l
					}
				}
				if line == "" {
					line = lastLines(s, 4)
				}
				problems = append(problems, fmt.Sprintf("translator validation: native run of %s disagrees with the symbolic path (%s)", it.h.Func, line))
			}
		}
	}
	return validated, problems
}
