// Derived from golang.org/x/tools/go/ssa/interp (BSD licence, see LICENSE.xtools).
// Modified: symbolic scalars (*Sym), symbolic byte strings, opaque strings,
// insertion-ordered maps with symbolic keys, no reflection.

package symx

// Values
//
// All interpreter values are "boxed" in the empty interface, value.
// The range of possible dynamic types within value are:
//
// - bool
// - numbers (all built-in int/float/complex types are distinguished)
// - *Sym --- a symbolic bool / integer / float (an SMT term plus its Go kind)
// - string; sstr (byte string with symbolic bytes); ostr (opaque string)
// - *omap --- maps (insertion ordered)
// - chan value
// - []value --- slices
// - iface --- interfaces.
// - structure --- structs.  Fields are ordered and accessed by numeric indices.
// - array --- arrays.
// - *value --- pointers.  Careful: *value is a distinct type from *array etc.
// - *ssa.Function \
//   *ssa.Builtin   } --- functions.  A nil 'func' is always of type *ssa.Function.
//   *closure      /
// - tuple --- as returned by Return, Next, "value,ok" modes, etc.
// - iter --- iterators from 'range' over map or string.
// - bad --- a poison pill for locals that have gone out of scope.
// - **deferred -- the address of a frame's defer stack for a Defer._Stack.
// - *native --- an opaque host object owned by an intrinsic (mutex, context ...)

import (
	"bytes"
	"fmt"
	"go/types"
	"unsafe"

	"golang.org/x/tools/go/ssa"
	"golang.org/x/tools/go/types/typeutil"

	"gosmt/smt"
)

type value any

type tuple []value

type array []value

type iface struct {
	t types.Type // never an "untyped" type
	v value
}

type structure []value

// Sym is a symbolic scalar.
type Sym struct {
	T *smt.Term
	K types.BasicKind // Bool, Int.., Uint.., Uintptr, Float32, Float64
}

// sstr is a string whose length is concrete and whose bytes may be symbolic.
type sstr struct{ b []value }

// ostr is an opaque string: only equality (and length-zero tests) are modelled.
type ostr struct{ t *smt.Term }

// native wraps host state used by intrinsics.
type native struct {
	kind string
	v    any
}

// For map, array, *array, slice, string or channel.
type iter interface {
	// next returns a Tuple (key, value, ok).
	next() tuple
}

type closure struct {
	Fn  *ssa.Function
	Env []value
}

type bad struct{}

// hashString computes the FNV hash of s.
func hashString(s string) int {
	var h uint32
	for i := 0; i < len(s); i++ {
		h ^= uint32(s[i])
		h *= 16777619
	}
	return int(h)
}

var hasher = typeutil.MakeHasher()

func hashType(t types.Type) int { return int(hasher.Hash(t)) }

// nil-tolerant variant of types.Identical.
func sameType(x, y types.Type) bool {
	if x == nil {
		return y == nil
	}
	return y != nil && types.Identical(x, y)
}

// isConcreteKey reports whether v contains no symbolic parts (so it can be hashed).
func isConcreteKey(v value) bool {
	switch v := v.(type) {
	case *Sym, sstr, ostr:
		return false
	case structure:
		for _, e := range v {
			if !isConcreteKey(e) {
				return false
			}
		}
	case array:
		for _, e := range v {
			if !isConcreteKey(e) {
				return false
			}
		}
	case iface:
		return isConcreteKey(v.v)
	}
	return true
}

// hashValue returns a hash of a concrete key.
func hashValue(x value) int {
	switch x := x.(type) {
	case nil:
		return 0
	case bool:
		if x {
			return 1
		}
		return 0
	case int:
		return x
	case int8:
		return int(x)
	case int16:
		return int(x)
	case int32:
		return int(x)
	case int64:
		return int(x)
	case uint:
		return int(x)
	case uint8:
		return int(x)
	case uint16:
		return int(x)
	case uint32:
		return int(x)
	case uint64:
		return int(x)
	case uintptr:
		return int(x)
	case float32:
		return int(x)
	case float64:
		return int(x)
	case complex64:
		return int(real(x))
	case complex128:
		return int(real(x))
	case string:
		return hashString(x)
	case *value:
		return int(uintptr(unsafe.Pointer(x)))
	case chan value:
		return 7
	case structure:
		h := 0
		for _, e := range x {
			h = h*31 + hashValue(e)
		}
		return h
	case array:
		h := 0
		for _, e := range x {
			h = h*31 + hashValue(e)
		}
		return h
	case iface:
		if x.t == nil {
			return 0
		}
		return hashType(x.t)*8581 + hashValue(x.v)
	case *native:
		return int(uintptr(unsafe.Pointer(x)))
	}
	panic(fmt.Sprintf("unhashable value %T", x))
}

// load returns the value of type T in *addr.
func load(T types.Type, addr *value) value {
	switch T := T.Underlying().(type) {
	case *types.Struct:
		v := (*addr).(structure)
		a := make(structure, len(v))
		for i := range a {
			a[i] = load(T.Field(i).Type(), &v[i])
		}
		return a
	case *types.Array:
		v := (*addr).(array)
		a := make(array, len(v))
		for i := range a {
			a[i] = load(T.Elem(), &v[i])
		}
		return a
	default:
		return *addr
	}
}

// store stores value v of type T into *addr.
func store(T types.Type, addr *value, v value) {
	switch T := T.Underlying().(type) {
	case *types.Struct:
		lhs := (*addr).(structure)
		rhs := v.(structure)
		for i := range lhs {
			store(T.Field(i).Type(), &lhs[i], rhs[i])
		}
	case *types.Array:
		lhs := (*addr).(array)
		rhs := v.(array)
		for i := range lhs {
			store(T.Elem(), &lhs[i], rhs[i])
		}
	default:
		*addr = v
	}
}

// copyVal makes a deep copy of the value-typed parts (structs, arrays) of v.
func copyVal(v value) value {
	switch v := v.(type) {
	case structure:
		a := make(structure, len(v))
		for i := range v {
			a[i] = copyVal(v[i])
		}
		return a
	case array:
		a := make(array, len(v))
		for i := range v {
			a[i] = copyVal(v[i])
		}
		return a
	}
	return v
}

// Prints in the style of built-in println.
func writeValue(buf *bytes.Buffer, v value) {
	switch v := v.(type) {
	case nil, bool, int, int8, int16, int32, int64, uint, uint8, uint16, uint32, uint64, uintptr, float32, float64, complex64, complex128, string:
		fmt.Fprintf(buf, "%v", v)
	case *Sym:
		fmt.Fprintf(buf, "<sym#%d>", v.T.ID)
	case sstr:
		buf.WriteString("<sstr ")
		for _, e := range v.b {
			if c, ok := e.(uint8); ok {
				buf.WriteByte(c)
			} else {
				buf.WriteByte('?')
			}
		}
		buf.WriteString(">")
	case ostr:
		fmt.Fprintf(buf, "<ostr#%d>", v.t.ID)
	case *omap:
		buf.WriteString("map[")
		sep := ""
		if v != nil {
			for _, e := range v.entries {
				if e.deleted {
					continue
				}
				buf.WriteString(sep)
				sep = " "
				writeValue(buf, e.key)
				buf.WriteString(":")
				writeValue(buf, e.val)
			}
		}
		buf.WriteString("]")
	case chan value:
		fmt.Fprintf(buf, "%v", v) // (an address)
	case *value:
		if v == nil {
			buf.WriteString("<nil>")
		} else {
			fmt.Fprintf(buf, "%p", v)
		}
	case iface:
		fmt.Fprintf(buf, "(%s, ", v.t)
		writeValue(buf, v.v)
		buf.WriteString(")")
	case structure:
		buf.WriteString("{")
		for i, e := range v {
			if i > 0 {
				buf.WriteString(" ")
			}
			writeValue(buf, e)
		}
		buf.WriteString("}")
	case array:
		buf.WriteString("[")
		for i, e := range v {
			if i > 0 {
				buf.WriteString(" ")
			}
			writeValue(buf, e)
		}
		buf.WriteString("]")
	case []value:
		buf.WriteString("[")
		for i, e := range v {
			if i > 0 {
				buf.WriteString(" ")
			}
			writeValue(buf, e)
		}
		buf.WriteString("]")
	case *ssa.Function, *ssa.Builtin, *closure:
		fmt.Fprintf(buf, "%p", v) // (an address)
	case tuple:
		buf.WriteString("(")
		for i, e := range v {
			if i > 0 {
				buf.WriteString(", ")
			}
			writeValue(buf, e)
		}
		buf.WriteString(")")
	default:
		fmt.Fprintf(buf, "<%T>", v)
	}
}

func toString(v value) string {
	var b bytes.Buffer
	writeValue(&b, v)
	return b.String()
}

// ------------------------------------------------------------------------
// Ordered map

type mentry struct {
	key, val value
	deleted  bool
}

type omap struct {
	keyType  types.Type
	entries  []*mentry
	index    map[int][]*mentry // concrete keys only
	symKeys  int               // number of live entries with symbolic keys
	live     int
	ndeleted int
}

func makeMap(kt types.Type) *omap {
	return &omap{keyType: kt, index: map[int][]*mentry{}}
}

func (m *omap) len() int {
	if m == nil {
		return 0
	}
	return m.live
}

// find returns the entry whose key equals k (deciding symbolic equalities
// through the machine), or nil.
func (m *omap) find(mc *Machine, k value) *mentry {
	if m == nil {
		return nil
	}
	if isConcreteKey(k) && m.symKeys == 0 {
		for _, e := range m.index[hashValue(k)] {
			if !e.deleted && mc.eqConcrete(m.keyType, e.key, k) {
				return e
			}
		}
		return nil
	}
	for _, e := range m.entries {
		if e.deleted {
			continue
		}
		if mc.truth(mc.equals(m.keyType, e.key, k)) {
			return e
		}
	}
	return nil
}

func (m *omap) insert(mc *Machine, k, v value) {
	if e := m.find(mc, k); e != nil {
		e.val = v
		return
	}
	e := &mentry{key: k, val: v}
	m.entries = append(m.entries, e)
	if isConcreteKey(k) {
		h := hashValue(k)
		m.index[h] = append(m.index[h], e)
	} else {
		m.symKeys++
	}
	m.live++
}

func (m *omap) delete(mc *Machine, k value) {
	if m == nil {
		return
	}
	e := m.find(mc, k)
	if e == nil {
		return
	}
	e.deleted = true
	m.live--
	m.ndeleted++
	if !isConcreteKey(e.key) {
		m.symKeys--
	} else {
		h := hashValue(e.key)
		l := m.index[h]
		for i := range l {
			if l[i] == e {
				l = append(l[:i:i], l[i+1:]...)
				break
			}
		}
		if len(l) == 0 {
			delete(m.index, h)
		} else {
			m.index[h] = l
		}
	}
	if m.ndeleted > 32 && m.ndeleted > m.live {
		var ne []*mentry
		for _, x := range m.entries {
			if !x.deleted {
				ne = append(ne, x)
			}
		}
		m.entries = ne
		m.ndeleted = 0
	}
}

func (m *omap) clear() {
	if m == nil {
		return
	}
	for _, e := range m.entries {
		e.deleted = true
	}
	m.entries = nil
	m.index = map[int][]*mentry{}
	m.symKeys, m.live, m.ndeleted = 0, 0, 0
}

type omapIter struct {
	snap []*mentry
	i    int
}

func (it *omapIter) next() tuple {
	for it.i < len(it.snap) {
		e := it.snap[it.i]
		it.i++
		if !e.deleted {
			return tuple{true, e.key, e.val}
		}
	}
	return tuple{false, nil, nil}
}

// ------------------------------------------------------------------------
// String iterators

type stringIter struct {
	s string
	i int
}

func (it *stringIter) next() tuple {
	okv := make(tuple, 3)
	if it.i >= len(it.s) {
		okv[0] = false
		return okv
	}
	okv[0] = true
	okv[1] = it.i
	for j, r := range it.s[it.i:] {
		_ = j
		okv[2] = r
		n := len(string(r))
		if r == 0xFFFD {
			n = 1
			// could be a genuine U+FFFD (3 bytes)
			if len(it.s[it.i:]) >= 3 && it.s[it.i:it.i+3] == "�" {
				n = 3
			}
		}
		it.i += n
		break
	}
	return okv
}
