package symx

import (
	"fmt"
	"os"
	"go/token"
	"runtime"
	"sort"
	"sync"
	"time"

	"golang.org/x/tools/go/ssa"

	"gosmt/smt"
)

// PathResult summarises one explored path.
type PathResult struct {
	Prefix    string
	Decisions int
	Events    []Event
	Abort     string // "", assume, done, crash, unmodelled, budget, engine, unknown
	AbortMsg  string
	Inputs    []InputRec
	Tainted   bool
	Steps     int64
	Queries   int
	PanicMsg  string
	VCs       int
	VCsUnsat  int
	Model     smt.Model // model of the path condition (sampled paths and violations)
	Observes  []Observation
	ObsVals   []string
	Taken     []Decision
}

type Violation struct {
	Harness string
	Kind    string // assert | panic
	Label   string
	Msg     string
	Pos     string
	Prefix  string
	Inputs  []InputRec
	Model   smt.Model
	Choices map[string]int
}

type ExploreStats struct {
	Paths        int
	Pruned       int // ended by Assume
	Completed    int
	Decisions    int
	MaxDepth     int
	Steps        int64
	VCs          int
	VCsUnsat     int
	Reach        map[string]int
	AssertOK     map[string]int
	AssertFail   map[string]int
	Known        map[string]int
	Inconclusive []string
	Violations   []Violation
	Covered      map[string]int
	Intrinsics   map[string]int
	Solver       map[string]smt.Stats
	Samples      []map[string]any
	CleanSamples []Violation // sampled paths without failing assertion, with a model: replayed natively to validate the translation
	Wall         time.Duration
	Terms        int
	PathBudgetHit bool
}

type ExploreOpts struct {
	Workers    int
	MaxPaths   int
	SolverKind string
	Cfg        *Config
	SampleN    int
	Deadline   time.Time
	Harness    string
	DumpDir    string
}

type workItem struct{ prefix []Decision }

// Explore runs fn (a niladic harness function) over all feasible paths.
func Explore(prog *ssa.Program, pkg *ssa.Package, fn *ssa.Function, opts ExploreOpts) *ExploreStats {
	st := &ExploreStats{Reach: map[string]int{}, AssertOK: map[string]int{}, AssertFail: map[string]int{}, Known: map[string]int{},
		Covered: map[string]int{}, Intrinsics: map[string]int{}, Solver: map[string]smt.Stats{}}
	start := time.Now()
	var mu sync.Mutex
	cond := sync.NewCond(&mu)
	work := []workItem{{nil}}
	active := 0
	stop := false
	inconcl := map[string]bool{}
	violKey := map[string]bool{}

	worker := func(id int) {
		ctx := smt.NewCtx()
		solver, err := smt.StartSolver(opts.SolverKind)
		if err != nil {
			mu.Lock()
			inconcl["cannot start solver: "+err.Error()] = true
			stop = true
			cond.Broadcast()
			mu.Unlock()
			return
		}
		defer solver.Close()
		m := NewMachine(prog, opts.Cfg, ctx, solver)
		for {
			mu.Lock()
			for len(work) == 0 && active > 0 && !stop {
				cond.Wait()
			}
			if stop || (len(work) == 0 && active == 0) {
				mu.Unlock()
				break
			}
			it := work[len(work)-1]
			work = work[:len(work)-1]
			active++
			mu.Unlock()

			mu.Lock()
			m.WantModel = len(st.Samples) < opts.SampleN // a model of the whole path only for the sampled paths
			mu.Unlock()
			res, forks := m.RunPath(pkg, fn, it.prefix)

			mu.Lock()
			active--
			st.Paths++
			st.Decisions += res.Decisions
			if res.Decisions > st.MaxDepth {
				st.MaxDepth = res.Decisions
			}
			st.Steps += res.Steps
			st.VCs += res.VCs
			st.VCsUnsat += res.VCsUnsat
			switch res.Abort {
			case "assume":
				st.Pruned++
			case "", "done":
				st.Completed++
			case "crash":
				inconcl["uncaught zzvf.Crash on path "+res.Prefix] = true
			default:
				inconcl[res.Abort+": "+res.AbortMsg] = true
			}
			for _, ev := range res.Events {
				switch ev.Kind {
				case "reach":
					st.Reach[ev.Label]++
				case "assert-ok":
					st.AssertOK[ev.Label]++
				case "assert-unknown":
					inconcl["solver unknown on VC "+ev.Label+" "+ev.Msg] = true
				case "known":
					for _, k := range ev.Known {
						st.Known[k+"|"+ev.Label]++
					}
					st.AssertFail[ev.Label]++
				case "assert-fail", "panic":
					st.AssertFail[ev.Label]++
					k := ev.Kind + "|" + ev.Label + "|" + ev.Pos
					if !violKey[k] || len(st.Violations) < 4 {
						violKey[k] = true
						kind := "assert"
						if ev.Kind == "panic" {
							kind = "panic"
						}
						st.Violations = append(st.Violations, Violation{Harness: opts.Harness, Kind: kind, Label: ev.Label, Msg: ev.Msg, Pos: ev.Pos,
							Prefix: res.Prefix, Inputs: res.Inputs, Model: ev.Model})
					}
				}
			}
			if len(st.Samples) < opts.SampleN && (res.Abort == "" || res.Abort == "done") {
				st.Samples = append(st.Samples, sampleOf(res))
				if res.Model != nil {
					clean := true
					for _, ev := range res.Events {
						if ev.Kind == "assert-fail" || ev.Kind == "known" || ev.Kind == "panic" || ev.Kind == "assert-unknown" {
							clean = false
						}
					}
					if clean {
						st.CleanSamples = append(st.CleanSamples, Violation{Harness: opts.Harness, Prefix: res.Prefix, Inputs: res.Inputs, Model: res.Model})
					}
				}
			}
			for _, f := range forks {
				work = append(work, workItem{f})
			}
			if opts.MaxPaths > 0 && st.Paths >= opts.MaxPaths && (len(work) > 0 || active > 0) {
				st.PathBudgetHit = true
				inconcl[fmt.Sprintf("path budget %d exhausted with %d prefixes pending", opts.MaxPaths, len(work))] = true
				stop = true
			}
			if !opts.Deadline.IsZero() && time.Now().After(opts.Deadline) && (len(work) > 0 || active > 0) {
				inconcl[fmt.Sprintf("time budget exhausted with %d prefixes pending", len(work))] = true
				stop = true
			}
			cond.Broadcast()
			mu.Unlock()
		}
		mu.Lock()
		for f, n := range m.Covered {
			st.Covered[f.String()] += n
		}
		for k, n := range m.IntrinsicsHit {
			st.Intrinsics[k] += n
		}
		s := st.Solver[solver.Kind]
		s.Queries += solver.Stats.Queries
		s.Sat += solver.Stats.Sat
		s.Unsat += solver.Stats.Unsat
		s.Unknown += solver.Stats.Unknown
		s.Errors += solver.Stats.Errors
		s.CacheHit += solver.Stats.CacheHit
		s.Time += solver.Stats.Time
		st.Solver[solver.Kind] = s
		st.Terms += ctx.NumTerms()
		mu.Unlock()
	}
	n := opts.Workers
	if n <= 0 {
		// each worker drives its own solver process, so half the cores run interpreters
		n = runtime.NumCPU() / 2
		if n < 1 {
			n = 1
		}
	}
	var wg sync.WaitGroup
	for i := 0; i < n; i++ {
		wg.Add(1)
		go func(i int) { defer wg.Done(); worker(i) }(i)
	}
	wg.Wait()
	for k := range inconcl {
		st.Inconclusive = append(st.Inconclusive, k)
	}
	sort.Strings(st.Inconclusive)
	st.Wall = time.Since(start)
	return st
}

func sampleOf(res *PathResult) map[string]any {
	s := map[string]any{"decisions": res.Prefix, "steps": res.Steps}
	if res.Model != nil {
		in := map[string]any{}
		for _, r := range res.Inputs {
			if len(r.Vars) == 1 {
				if v, ok := res.Model[r.Vars[0]]; ok {
					in[r.Name] = v
				}
			} else if len(r.Vars) > 1 {
				bs := make([]uint64, len(r.Vars))
				for i, vn := range r.Vars {
					bs[i] = res.Model[vn]
				}
				in[r.Name] = bs
			} else {
				in[r.Name] = r.Kind
			}
		}
		s["inputs"] = in
	}
	var evs []string
	for _, e := range res.Events {
		evs = append(evs, e.Kind+":"+e.Label)
	}
	s["events"] = evs
	return s
}

// RunPath executes the harness once along prefix.
func (m *Machine) RunPath(pkg *ssa.Package, fn *ssa.Function, prefix []Decision) (res *PathResult, forks [][]Decision) {
	if os.Getenv("GOSMT_PROF") != "" {
		t0 := time.Now()
		q0 := m.solver.Stats.Queries
		defer func() {
			fmt.Fprintf(os.Stderr, "path %s: %v steps=%d queries=%d solver=%v\n", PrefixString(prefix), time.Since(t0), m.steps, m.solver.Stats.Queries-q0, m.solver.Stats.Time)
		}()
	}
	m.resetGlobals()
	m.path = NewPath(prefix)
	m.steps = 0
	m.clock = clockState{}
	m.uuidCounter = 0
	m.nativeState = map[string]any{}
	p := m.path
	res = &PathResult{}
	func() {
		defer func() {
			if r := recover(); r != nil {
				switch r := r.(type) {
				case abortPath:
					res.Abort, res.AbortMsg = r.Kind, r.Msg
				case targetPanic:
					res.PanicMsg = "panic: " + m.panicString(r.v)
				case runtime.Error:
					if _, mine := r.(runtimeError); mine {
						res.PanicMsg = r.Error()
					} else {
						// Go run-time error inside the interpreter while executing target code
						res.PanicMsg = r.Error()
					}
				default:
					res.Abort, res.AbortMsg = "engine", fmt.Sprint(r)
				}
			}
		}()
		if init := pkg.Func("init"); init != nil {
			m.runInit(pkg)
		}
		m.call(nil, token.NoPos, fn, nil)
	}()
	if res.PanicMsg != "" {
		// uncaught panic in code under test on a feasible path: a violation
		r, mod := m.ModelOfPath()
		ev := Event{Kind: "panic", Label: "no-panic", Msg: res.PanicMsg, Model: mod}
		if r == smt.Unsat {
			ev = Event{}
		} else if r == smt.Unknown {
			ev = Event{Kind: "assert-unknown", Label: "no-panic", Msg: "path condition of panic path undecided"}
		} else if len(p.Known) > 0 {
			c := m.ctx
			outside := c.True()
			var ids []string
			for _, k := range p.Known {
				outside = c.And(outside, c.Not(k.cond))
				if rr, _ := m.sat(k.cond, false, true); rr == smt.Sat {
					ids = append(ids, k.id)
				}
			}
			ro, mo := m.sat(outside, true, true)
			if ro == smt.Unsat {
				ev.Kind, ev.Known = "known", ids
			} else if ro == smt.Sat {
				ev.Model = mo
			} else {
				ev.Kind = "assert-unknown"
			}
		}
		if ev.Kind != "" {
			p.Events = append(p.Events, ev)
		}
	}
	res.Prefix = PrefixString(p.Taken)
	res.Decisions = len(p.Taken)
	res.Events = p.Events
	res.Inputs = p.Inputs
	res.Tainted = p.Tainted
	res.Steps = m.steps
	res.Queries = p.Queries
	res.VCs, res.VCsUnsat = p.VCs, p.VCsUnsat
	res.Observes = p.Observes
	res.Taken = p.Taken
	if m.WantModel && (res.Abort == "" || res.Abort == "done") {
		if r, mod := m.ModelOfPath(); r == smt.Sat {
			res.Model = mod
		}
	}
	return res, p.Forks
}

func (m *Machine) runInit(pkg *ssa.Package) {
	// Run the initialisers of the configured packages in dependency order.
	var visit func(p *ssa.Package)
	visit = func(p *ssa.Package) {
		if m.initDone[p] {
			return
		}
		m.initDone[p] = true
		for _, imp := range p.Pkg.Imports() {
			if ip := m.prog.Package(imp); ip != nil {
				visit(ip)
			}
		}
		if !m.cfg.InitPkgs[p.Pkg.Path()] {
			return
		}
		if f := p.Func("init"); f != nil {
			// mark guard so nested init calls are no-ops
			m.callInitBody(f)
		}
	}
	visit(pkg)
}

func (m *Machine) callInitBody(f *ssa.Function) {
	m.call(nil, token.NoPos, f, nil)
}

func (m *Machine) panicString(v value) string {
	if i, ok := v.(iface); ok {
		if i.t == nil {
			return "nil"
		}
		if s, ok := i.v.(string); ok {
			return s
		}
		// error value: try Error()
		if em := m.errorMethod(i); em != nil {
			var out string
			func() {
				defer func() {
					if r := recover(); r != nil {
						if isAbort(r) {
							out = "<error>"
						}
					}
				}()
				if s, ok := m.call(nil, token.NoPos, em, []value{i.v}).(string); ok {
					out = s
				}
			}()
			if out != "" {
				return out
			}
		}
		return i.t.String() + " " + toString(i.v)
	}
	return toString(v)
}

func (m *Machine) errorMethod(i iface) *ssa.Function {
	ms := m.prog.MethodSets.MethodSet(i.t)
	for _, name := range []string{"Error", "String"} {
		for k := 0; k < ms.Len(); k++ {
			if ms.At(k).Obj().Name() == name {
				return m.prog.MethodValue(ms.At(k))
			}
		}
	}
	return nil
}
