package symx

import (
	"fmt"
	"go/token"
	"go/types"
	"math"
	"strings"

	"golang.org/x/tools/go/ssa"

	"gosmt/smt"
)

const vfPkg = "github.com/sharedcode/sop/zzvf"

var intrinsics = map[string]Intrinsic{}

// noopPkgs: every function of these packages returns the zero value of its results.
var noopPkgs = map[string]bool{"log/slog": true, "log": true}

func reg(name string, f Intrinsic) { intrinsics[name] = f }

func zeroResults(fn *ssa.Function) value {
	res := fn.Signature.Results()
	switch res.Len() {
	case 0:
		return nil
	case 1:
		return zero(res.At(0).Type())
	}
	return zero(res)
}

func (m *Machine) callerPos(fr *frame) string {
	if m.lastCallPos.IsValid() {
		p := m.prog.Fset.Position(m.lastCallPos)
		return fmt.Sprintf("%s:%d", p.Filename, p.Line)
	}
	return ""
}

func concString(v value) (string, bool) {
	switch v := v.(type) {
	case string:
		return v, true
	}
	return "", false
}

func mustString(v value, what string) string {
	s, ok := concString(v)
	if !ok {
		panic(unmodelled(what + ": symbolic string argument"))
	}
	return s
}

func (m *Machine) freshVar(name string, k types.BasicKind) *Sym {
	p := m.path
	n := p.uniqueName(name)
	var srt smt.Sort
	switch {
	case k == types.Bool:
		srt = smt.Bool
	default:
		srt = smt.BV(kindWidth(k))
	}
	vn := n + "~" + types.Typ[k].Name() // the SMT symbol carries the kind: one name may be reused at another width on another path
	t := m.ctx.Var(vn, srt)
	p.Inputs = append(p.Inputs, InputRec{Name: n, Kind: types.Typ[k].Name(), Vars: []string{vn}})
	if kindIsFloat(k) {
		return &Sym{T: m.ctx.FFromBV(t), K: k}
	}
	return &Sym{T: t, K: k}
}

func scalarIntrinsic(k types.BasicKind) Intrinsic {
	return func(m *Machine, fr *frame, fn *ssa.Function, args []value) value {
		return m.freshVar(mustString(args[0], "zzvf input name"), k)
	}
}

func init() {
	for name, k := range map[string]types.BasicKind{
		"Int": types.Int, "Int64": types.Int64, "Int32": types.Int32, "Int16": types.Int16, "Int8": types.Int8,
		"Uint": types.Uint, "Uint64": types.Uint64, "Uint32": types.Uint32, "Uint16": types.Uint16, "Byte": types.Uint8,
		"Bool": types.Bool, "Float64": types.Float64, "Float32": types.Float32,
	} {
		reg(vfPkg+"."+name, scalarIntrinsic(k))
	}
	reg(vfPkg+".Bytes", func(m *Machine, fr *frame, fn *ssa.Function, args []value) value {
		name := mustString(args[0], "zzvf.Bytes")
		n := int(asInt64(args[1]))
		un := m.path.uniqueName(name)
		res := make([]value, n)
		rec := InputRec{Name: un, Kind: fmt.Sprintf("bytes:%d", n)}
		for i := 0; i < n; i++ {
			vn := fmt.Sprintf("%s[%d]", un, i)
			res[i] = &Sym{T: m.ctx.Var(vn, smt.BV(8)), K: types.Uint8}
			rec.Vars = append(rec.Vars, vn)
		}
		m.path.Inputs = append(m.path.Inputs, rec)
		return res
	})
	reg(vfPkg+".ByteString", func(m *Machine, fr *frame, fn *ssa.Function, args []value) value {
		name := mustString(args[0], "zzvf.ByteString")
		n := int(asInt64(args[1]))
		un := m.path.uniqueName(name)
		res := make([]value, n)
		rec := InputRec{Name: un, Kind: fmt.Sprintf("bytestring:%d", n)}
		for i := 0; i < n; i++ {
			vn := fmt.Sprintf("%s[%d]", un, i)
			res[i] = &Sym{T: m.ctx.Var(vn, smt.BV(8)), K: types.Uint8}
			rec.Vars = append(rec.Vars, vn)
		}
		m.path.Inputs = append(m.path.Inputs, rec)
		if n == 0 {
			return ""
		}
		return sstr{res}
	})
	reg(vfPkg+".Str", func(m *Machine, fr *frame, fn *ssa.Function, args []value) value {
		name := mustString(args[0], "zzvf.Str")
		un := m.path.uniqueName(name)
		m.path.Inputs = append(m.path.Inputs, InputRec{Name: un, Kind: "str", Vars: []string{un + "~str"}})
		return ostr{m.ctx.Var(un+"~str", smt.StrSort)}
	})
	reg(vfPkg+".Choose", func(m *Machine, fr *frame, fn *ssa.Function, args []value) value {
		name := mustString(args[0], "zzvf.Choose")
		n := int(asInt64(args[1]))
		un := m.path.uniqueName(name)
		v := m.Choose(n)
		m.path.Inputs = append(m.path.Inputs, InputRec{Name: un, Kind: fmt.Sprintf("choose:%d=%d", n, v)})
		return v
	})
	reg(vfPkg+".Assume", func(m *Machine, fr *frame, fn *ssa.Function, args []value) value {
		m.Assume(m.boolTerm(args[0]))
		return nil
	})
	reg(vfPkg+".Assert", func(m *Machine, fr *frame, fn *ssa.Function, args []value) value {
		m.Assert(m.boolTerm(args[0]), mustString(args[1], "zzvf.Assert label"), m.callerPos(fr))
		return nil
	})
	reg(vfPkg+".Reach", func(m *Machine, fr *frame, fn *ssa.Function, args []value) value {
		m.Reach(mustString(args[0], "zzvf.Reach label"))
		return nil
	})
	reg(vfPkg+".Known", func(m *Machine, fr *frame, fn *ssa.Function, args []value) value {
		id := mustString(args[0], "zzvf.Known id")
		if m.cfg.OpenKnown[id] {
			m.path.Known = append(m.path.Known, knownRegion{id, m.boolTerm(args[1])})
		}
		return nil
	})
	reg(vfPkg+".And", func(m *Machine, fr *frame, fn *ssa.Function, args []value) value {
		return m.andv(args[0], args[1])
	})
	reg(vfPkg+".Or", func(m *Machine, fr *frame, fn *ssa.Function, args []value) value {
		return m.not(m.andv(m.not(args[0]), m.not(args[1])))
	})
	reg(vfPkg+".Implies", func(m *Machine, fr *frame, fn *ssa.Function, args []value) value {
		return m.not(m.andv(args[0], m.not(args[1])))
	})
	reg(vfPkg+".Not", func(m *Machine, fr *frame, fn *ssa.Function, args []value) value {
		return m.not(args[0])
	})
	reg(vfPkg+".IteInt", func(m *Machine, fr *frame, fn *ssa.Function, args []value) value {
		if b, ok := args[0].(bool); ok {
			if b {
				return args[1]
			}
			return args[2]
		}
		return m.fromTerm(m.ctx.Ite(m.boolTerm(args[0]), m.termOf(args[1]), m.termOf(args[2])), types.Int)
	})
	iteK := func(k types.BasicKind) Intrinsic {
		return func(m *Machine, fr *frame, fn *ssa.Function, args []value) value {
			if b, ok := args[0].(bool); ok {
				if b {
					return args[1]
				}
				return args[2]
			}
			return m.fromTerm(m.ctx.Ite(m.boolTerm(args[0]), m.termOf(args[1]), m.termOf(args[2])), k)
		}
	}
	reg(vfPkg+".IteByte", iteK(types.Uint8))
	reg(vfPkg+".IteInt64", iteK(types.Int64))
	reg(vfPkg+".Eq", func(m *Machine, fr *frame, fn *ssa.Function, args []value) value {
		// Eq(a, b any) bool: deep symbolic equality of two interface values
		return m.equals(nil, args[0], args[1])
	})
	reg(vfPkg+".BytesEq", func(m *Machine, fr *frame, fn *ssa.Function, args []value) value {
		a, b := args[0].([]value), args[1].([]value)
		if len(a) != len(b) {
			return false
		}
		var res value = true
		for i := range a {
			res = m.andv(res, m.equals(nil, a[i], b[i]))
		}
		return res
	})
	reg(vfPkg+".Observe", func(m *Machine, fr *frame, fn *ssa.Function, args []value) value {
		label := mustString(args[0], "zzvf.Observe label")
		m.observe(label, args[1])
		return nil
	})
	reg(vfPkg+".MayPanic", func(m *Machine, fr *frame, fn *ssa.Function, args []value) (res value) {
		defer func() {
			if p := recover(); p != nil {
				if isAbort(p) {
					panic(p)
				}
				if s, ok := p.(string); ok && !strings.HasPrefix(s, "runtime error") {
					panic(abortPath{"engine", s})
				}
				res = true
			}
		}()
		m.call(fr, token.NoPos, args[0], nil)
		return false
	})
	reg(vfPkg+".Crash", func(m *Machine, fr *frame, fn *ssa.Function, args []value) value {
		panic(abortPath{"crash", "zzvf.Crash"})
	})
	reg(vfPkg+".CatchCrash", func(m *Machine, fr *frame, fn *ssa.Function, args []value) (res value) {
		defer func() {
			if p := recover(); p != nil {
				if a, ok := p.(abortPath); ok && a.Kind == "crash" {
					res = true
					return
				}
				panic(p)
			}
		}()
		m.call(fr, token.NoPos, args[0], nil)
		return false
	})
	reg(vfPkg+".Thorough", func(m *Machine, fr *frame, fn *ssa.Function, args []value) value { return m.cfg.Thorough })
	reg(vfPkg+".Symbolic", func(m *Machine, fr *frame, fn *ssa.Function, args []value) value { return true })
	reg(vfPkg+".ClockSymbolic", func(m *Machine, fr *frame, fn *ssa.Function, args []value) value {
		m.clock.symbolic = true
		m.clock.maxStep = asInt64(args[0])
		return nil
	})
	reg(vfPkg+".Advance", func(m *Machine, fr *frame, fn *ssa.Function, args []value) value {
		m.sleep(args[0])
		return nil
	})
	reg(vfPkg+".Advanced", func(m *Machine, fr *frame, fn *ssa.Function, args []value) value { return int64(0) })
	reg(vfPkg+".NowNanos", func(m *Machine, fr *frame, fn *ssa.Function, args []value) value {
		return m.mul64(m.now(), msNs)
	})
	reg(vfPkg+".Fresh", func(m *Machine, fr *frame, fn *ssa.Function, args []value) value {
		// Fresh(name) uint64: an unconstrained value that is not an input (e.g. a hash result)
		n := m.path.uniqueName("fresh!" + mustString(args[0], "zzvf.Fresh"))
		return &Sym{T: m.ctx.Var(n, smt.BV(64)), K: types.Uint64}
	})

	// ---- math ----
	reg("math.Float64bits", func(m *Machine, fr *frame, fn *ssa.Function, args []value) value {
		if s, ok := args[0].(*Sym); ok {
			if s.T.Op == smt.OFFromBV {
				return m.fromTerm(s.T.Args[0], types.Uint64)
			}
			n := m.path.uniqueName("f64bits!")
			v := m.ctx.Var(n, smt.BV(64))
			m.Axiom(m.ctx.Eq(m.ctx.FFromBV(v), s.T))
			return &Sym{T: v, K: types.Uint64}
		}
		return math.Float64bits(args[0].(float64))
	})
	reg("math.Float32bits", func(m *Machine, fr *frame, fn *ssa.Function, args []value) value {
		if s, ok := args[0].(*Sym); ok {
			if s.T.Op == smt.OFFromBV {
				return m.fromTerm(s.T.Args[0], types.Uint32)
			}
			n := m.path.uniqueName("f32bits!")
			v := m.ctx.Var(n, smt.BV(32))
			m.Axiom(m.ctx.Eq(m.ctx.FFromBV(v), s.T))
			return &Sym{T: v, K: types.Uint32}
		}
		return math.Float32bits(args[0].(float32))
	})
	reg("math.Float64frombits", func(m *Machine, fr *frame, fn *ssa.Function, args []value) value {
		if s, ok := args[0].(*Sym); ok {
			return m.fromTerm(m.ctx.FFromBV(s.T), types.Float64)
		}
		return math.Float64frombits(args[0].(uint64))
	})
	reg("math.Float32frombits", func(m *Machine, fr *frame, fn *ssa.Function, args []value) value {
		if s, ok := args[0].(*Sym); ok {
			return m.fromTerm(m.ctx.FFromBV(s.T), types.Float32)
		}
		return math.Float32frombits(args[0].(uint32))
	})
	reg("math.IsNaN", func(m *Machine, fr *frame, fn *ssa.Function, args []value) value {
		if s, ok := args[0].(*Sym); ok {
			return m.fromTerm(m.ctx.FIsNaN(s.T), types.Bool)
		}
		return math.IsNaN(args[0].(float64))
	})
	reg("math.NaN", func(m *Machine, fr *frame, fn *ssa.Function, args []value) value { return math.NaN() })
	reg("math.Inf", func(m *Machine, fr *frame, fn *ssa.Function, args []value) value {
		return math.Inf(int(asInt64(args[0])))
	})
	for name, f := range map[string]func(float64) float64{"math.Sqrt": math.Sqrt, "math.Log": math.Log, "math.Exp": math.Exp, "math.Abs": math.Abs, "math.Floor": math.Floor, "math.Ceil": math.Ceil, "math.Trunc": math.Trunc, "math.Log2": math.Log2, "math.Log10": math.Log10} {
		f := f
		name := name
		reg(name, func(m *Machine, fr *frame, fn *ssa.Function, args []value) value {
			x, ok := args[0].(float64)
			if !ok {
				panic(unmodelled(name + " of symbolic float"))
			}
			return f(x)
		})
	}

	// ---- runtime / os odds and ends ----
	reg("runtime.GC", noop)
	reg("runtime.Gosched", noop)
	reg("runtime.KeepAlive", noop)
	reg("runtime.SetFinalizer", noop)
	reg("runtime.GOMAXPROCS", func(m *Machine, fr *frame, fn *ssa.Function, args []value) value { return 1 })
	reg("runtime.NumCPU", func(m *Machine, fr *frame, fn *ssa.Function, args []value) value { return 1 })
	reg("os.Getenv", func(m *Machine, fr *frame, fn *ssa.Function, args []value) value { return "" })
	reg("os.LookupEnv", func(m *Machine, fr *frame, fn *ssa.Function, args []value) value { return tuple{"", false} })
}

func noop(m *Machine, fr *frame, fn *ssa.Function, args []value) value { return zeroResults(fn) }

func (m *Machine) observe(label string, v value) {
	o := Observation{Label: label}
	if i, ok := v.(iface); ok {
		v = i.v
	}
	switch x := v.(type) {
	case *Sym:
		o.Term = x.T
	default:
		o.Conc = toString(x)
	}
	m.path.Observes = append(m.path.Observes, o)
}

// ---- clock ----
//
// The clock counts milliseconds. Concrete mode: every reading advances it by
// 1 ms. Symbolic mode: every reading advances it by a fresh amount in
// [0,maxStep] ms chosen by the solver (monotone, bounded steps).

type clockState struct {
	symbolic bool
	maxStep  int64
	cur      value // int64 milliseconds (concrete or *Sym)
	n        int
}

const clockBaseMs = int64(1_700_000_000_000)

func (m *Machine) now() value {
	cs := &m.clock
	if cs.cur == nil {
		cs.cur = clockBaseMs
	}
	if !cs.symbolic || cs.maxStep < 0 {
		// fixed 1 ms tick per clock read (maxStep < 0: only sleep jitters are symbolic)
		cs.cur = m.add64(cs.cur, int64(1))
		return cs.cur
	}
	c := m.ctx
	cs.n++
	d := m.ctx.Var(m.path.uniqueName("clk!step"), smt.BV(64))
	mx := cs.maxStep
	if mx <= 0 {
		mx = 1 << 40
	}
	m.Axiom(c.ULe(d, c.BVC(64, uint64(mx))))
	cs.cur = m.fromTerm(c.Add(m.termOf(m.i64(cs.cur)), d), types.Int64)
	return cs.cur
}
