package symx

import (
	"fmt"
	"go/token"
	"go/types"
	"reflect"
	"strings"

	"golang.org/x/tools/go/ssa"
)

// JSON model ("box"): Marshal(v) returns a one-element byte slice whose element is an
// immutable deep snapshot of the JSON-visible part of v (exported fields, honouring
// `json:"-"` and omitempty); Unmarshal copies such a snapshot into the target following
// encoding/json's rules that matter to sop (fields matched by JSON name, unexported fields
// untouched, absent fields keep their old value, slices reuse the target's backing array
// when it is large enough, pointers are allocated). Types with MarshalJSON/UnmarshalJSON
// methods have those methods executed from source. The bytes themselves are not modelled:
// this assumes encoding/json round-trips sop's own types (DESIGN section 3).

type boxed struct {
	t types.Type
	v value
}

func jsonFieldName(st *types.Struct, i int) (name string, omitEmpty, skip bool) {
	f := st.Field(i)
	if !f.Exported() {
		return "", false, true
	}
	tag := reflect.StructTag(st.Tag(i)).Get("json")
	if tag == "-" {
		return "", false, true
	}
	name = f.Name()
	if tag != "" {
		parts := strings.Split(tag, ",")
		if parts[0] != "" {
			name = parts[0]
		}
		for _, p := range parts[1:] {
			if p == "omitempty" {
				omitEmpty = true
			}
		}
	}
	return name, omitEmpty, false
}

func jsonEmpty(v value) bool {
	switch x := v.(type) {
	case nil:
		return true
	case bool:
		return !x
	case string:
		return x == ""
	case []value:
		return len(x) == 0
	case *omap:
		return x.len() == 0
	case *value:
		return x == nil
	case iface:
		return x.t == nil
	case *Sym, sstr, ostr, structure, array:
		return false
	}
	if k := kindOf(v); k != types.Invalid {
		return bitsOf(v) == 0
	}
	return false
}

// jsonSnapshot deep-copies the JSON-visible part of v (static type T).
func (m *Machine) jsonSnapshot(T types.Type, v value, depth int) value {
	if depth > 64 {
		panic(unmodelled("json: value too deep (cyclic?)"))
	}
	switch U := T.Underlying().(type) {
	case *types.Basic:
		return v
	case *types.Pointer:
		p := v.(*value)
		if p == nil {
			return (*value)(nil)
		}
		if depth > 0 && m.hasJSONMethod(T, "MarshalJSON") {
			panic(unmodelled("json: nested value with a custom MarshalJSON (" + T.String() + ")"))
		}
		cp := m.jsonSnapshot(U.Elem(), load(U.Elem(), p), depth+1)
		return &cp
	case *types.Struct:
		s := v.(structure)
		out := make(structure, len(s))
		for i := range s {
			if _, _, skip := jsonFieldName(U, i); skip {
				out[i] = zero(U.Field(i).Type())
				continue
			}
			out[i] = m.jsonSnapshot(U.Field(i).Type(), s[i], depth+1)
		}
		return out
	case *types.Array:
		a := v.(array)
		out := make(array, len(a))
		for i := range a {
			out[i] = m.jsonSnapshot(U.Elem(), a[i], depth+1)
		}
		return out
	case *types.Slice:
		s := v.([]value)
		if s == nil {
			return []value(nil)
		}
		out := make([]value, len(s))
		for i := range s {
			out[i] = m.jsonSnapshot(U.Elem(), s[i], depth+1)
		}
		return out
	case *types.Map:
		mp := v.(*omap)
		if mp == nil {
			return (*omap)(nil)
		}
		out := makeMap(U.Key())
		for _, e := range mp.entries {
			if !e.deleted {
				out.insert(m, e.key, m.jsonSnapshot(U.Elem(), e.val, depth+1))
			}
		}
		return out
	case *types.Interface:
		it := v.(iface)
		if it.t == nil {
			return iface{}
		}
		return iface{t: it.t, v: m.jsonSnapshot(it.t, it.v, depth+1)}
	case *types.Signature, *types.Chan:
		return zero(T)
	}
	panic(unmodelled(fmt.Sprintf("json: cannot snapshot %s", T)))
}

func (m *Machine) hasJSONMethod(T types.Type, name string) bool {
	return m.methodOf(T, name) != nil
}

func sameBasicShape(a, b types.Type) bool {
	ab, ok1 := a.Underlying().(*types.Basic)
	bb, ok2 := b.Underlying().(*types.Basic)
	return ok1 && ok2 && ab.Kind() == bb.Kind()
}

// jsonRestore copies snapshot src (of type S) into *dst (of type D).
func (m *Machine) jsonRestore(D types.Type, dst *value, S types.Type, src value, depth int) {
	if depth > 64 {
		panic(unmodelled("json: value too deep"))
	}
	// a pointer was marshalled (JSON has no pointers): decode its pointee, null = no effect
	if sp, isPtr := S.Underlying().(*types.Pointer); isPtr {
		if _, dstPtr := D.Underlying().(*types.Pointer); !dstPtr {
			p := src.(*value)
			if p == nil {
				return
			}
			m.jsonRestore(D, dst, sp.Elem(), *p, depth)
			return
		}
	}
	switch DU := D.Underlying().(type) {
	case *types.Basic:
		if !sameBasicShape(D, S) {
			panic(unmodelled(fmt.Sprintf("json: decoding %s into %s", S, D)))
		}
		*dst = src
	case *types.Pointer:
		sp, isPtr := S.Underlying().(*types.Pointer)
		var innerS types.Type
		var innerV value
		if isPtr {
			p := src.(*value)
			if p == nil {
				*dst = (*value)(nil) // JSON null
				return
			}
			innerS, innerV = sp.Elem(), *p
		} else {
			innerS, innerV = S, src
		}
		cur := (*dst).(*value)
		if cur == nil {
			cell := zero(DU.Elem())
			cur = &cell
			*dst = cur
		}
		m.jsonRestore(DU.Elem(), cur, innerS, innerV, depth+1)
	case *types.Struct:
		if sp, isPtr := S.Underlying().(*types.Pointer); isPtr {
			p := src.(*value)
			if p == nil {
				return // null into a struct: no effect
			}
			m.jsonRestore(D, dst, sp.Elem(), *p, depth)
			return
		}
		SU, ok := S.Underlying().(*types.Struct)
		if !ok {
			panic(unmodelled(fmt.Sprintf("json: decoding %s into struct %s", S, D)))
		}
		ss := src.(structure)
		ds := (*dst).(structure)
		for i := 0; i < DU.NumFields(); i++ {
			name, _, skip := jsonFieldName(DU, i)
			if skip {
				continue
			}
			for j := 0; j < SU.NumFields(); j++ {
				sn, omit, sskip := jsonFieldName(SU, j)
				if sskip || sn != name {
					continue
				}
				if omit && jsonEmpty(ss[j]) {
					break // absent in the document: the target keeps its value
				}
				m.jsonRestore(DU.Field(i).Type(), &ds[i], SU.Field(j).Type(), ss[j], depth+1)
				break
			}
		}
	case *types.Array:
		SU, ok := S.Underlying().(*types.Array)
		if !ok {
			panic(unmodelled(fmt.Sprintf("json: decoding %s into %s", S, D)))
		}
		sa := src.(array)
		da := (*dst).(array)
		for i := range da {
			if i < len(sa) {
				m.jsonRestore(DU.Elem(), &da[i], SU.Elem(), sa[i], depth+1)
			} else {
				da[i] = zero(DU.Elem())
			}
		}
	case *types.Slice:
		SU, ok := S.Underlying().(*types.Slice)
		if !ok {
			panic(unmodelled(fmt.Sprintf("json: decoding %s into %s", S, D)))
		}
		ssl := src.([]value)
		if ssl == nil {
			*dst = []value(nil) // null
			return
		}
		cur, _ := (*dst).([]value)
		var out []value
		if cap(cur) >= len(ssl) {
			out = cur[:len(ssl)] // encoding/json reuses the backing array
		} else {
			out = make([]value, len(ssl))
		}
		for i := range ssl {
			out[i] = zero(DU.Elem())
			m.jsonRestore(DU.Elem(), &out[i], SU.Elem(), ssl[i], depth+1)
		}
		*dst = out
	case *types.Map:
		SU, ok := S.Underlying().(*types.Map)
		if !ok {
			panic(unmodelled(fmt.Sprintf("json: decoding %s into %s", S, D)))
		}
		sm := src.(*omap)
		if sm == nil {
			*dst = (*omap)(nil)
			return
		}
		cur, _ := (*dst).(*omap)
		if cur == nil {
			cur = makeMap(DU.Key())
			*dst = cur
		}
		for _, e := range sm.entries {
			if e.deleted {
				continue
			}
			cell := zero(DU.Elem())
			m.jsonRestore(DU.Elem(), &cell, SU.Elem(), e.val, depth+1)
			cur.insert(m, e.key, cell)
		}
	case *types.Interface:
		// keep the dynamic Go type (assumption: the value is read back as the type it was written with)
		if si, ok := src.(iface); ok {
			if si.t == nil {
				*dst = iface{}
				return
			}
			cell := zero(si.t)
			m.jsonRestore(si.t, &cell, si.t, si.v, depth+1)
			*dst = iface{t: si.t, v: cell}
			return
		}
		cell := zero(S)
		m.jsonRestore(S, &cell, S, src, depth+1)
		*dst = iface{t: S, v: cell}
	default:
		panic(unmodelled(fmt.Sprintf("json: decoding into %s", D)))
	}
}

func (m *Machine) jsonMarshal(fr *frame, arg value) value {
	it := arg.(iface)
	if it.t == nil {
		return tuple{[]value{&boxed{t: nil}}, iface{}}
	}
	if f := m.methodOf(it.t, "MarshalJSON"); f != nil && f.Signature.Params().Len() == 0 {
		return m.call(fr, token.NoPos, f, []value{it.v})
	}
	return tuple{[]value{&boxed{t: it.t, v: m.jsonSnapshot(it.t, it.v, 0)}}, iface{}}
}

func (m *Machine) jsonUnmarshal(fr *frame, data value, target value) value {
	ds, _ := data.([]value)
	tt := target.(iface)
	if tt.t == nil {
		return m.mkError("json: Unmarshal(nil)")
	}
	pt, ok := tt.t.Underlying().(*types.Pointer)
	if !ok || tt.v.(*value) == nil {
		return m.mkError("json: Unmarshal(non-pointer or nil)")
	}
	if len(ds) != 1 {
		if len(ds) == 0 {
			return m.mkError("unexpected end of JSON input")
		}
		panic(unmodelled("json.Unmarshal of bytes that were not produced by Marshal in this run"))
	}
	b, ok := ds[0].(*boxed)
	if !ok {
		panic(unmodelled("json.Unmarshal of bytes that were not produced by Marshal in this run"))
	}
	if f := m.methodOf(tt.t, "UnmarshalJSON"); f != nil && f.Signature.Params().Len() == 1 {
		r := m.call(fr, token.NoPos, f, []value{tt.v, data})
		return r
	}
	if b.t == nil {
		return iface{} // null: no effect
	}
	cell := tt.v.(*value)
	cur := load(pt.Elem(), cell)
	m.jsonRestore(pt.Elem(), &cur, b.t, b.v, 0)
	store(pt.Elem(), cell, cur)
	return iface{}
}

func init() {
	for _, pkg := range []string{"encoding/json", "github.com/goccy/go-json"} {
		reg(pkg+".Marshal", func(m *Machine, fr *frame, fn *ssa.Function, args []value) value {
			return m.jsonMarshal(fr, args[0])
		})
		reg(pkg+".Unmarshal", func(m *Machine, fr *frame, fn *ssa.Function, args []value) value {
			return m.jsonUnmarshal(fr, args[0], args[1])
		})
	}
	reg("encoding/json.NewEncoder", func(m *Machine, fr *frame, fn *ssa.Function, args []value) value {
		T := fn.Signature.Results().At(0).Type().(*types.Pointer).Elem()
		cell := zero(T)
		return &cell
	})
	reg("encoding/json.NewDecoder", func(m *Machine, fr *frame, fn *ssa.Function, args []value) value {
		T := fn.Signature.Results().At(0).Type().(*types.Pointer).Elem()
		cell := zero(T)
		return &cell
	})
}
