package symx

import (
	"go/token"
	"go/types"

	"golang.org/x/tools/go/ssa"

	"gosmt/smt"
)

// Callee path merging: a pure leaf function named in Config.Merge is explored
// exhaustively at the call site (no solver calls: both sides of every symbolic
// branch are taken) and its scalar results are merged into ite terms guarded by
// the sub-path conditions. The real SSA of the callee is what is executed.

type mergeState struct {
	prefix []bool // decisions to follow on this sub-run
	pos    int
	taken  []bool
	conds  []*smt.Term
	alts   [][]bool
	added  []*smt.Term // pcSet entries added during this sub-run
}

const mergeMaxDepth = 8192
const mergeMaxPaths = 4096

type mergeAbort struct{ why string }

func (ms *mergeState) decide(m *Machine, cond, neg *smt.Term) bool {
	var b bool
	if ms.pos < len(ms.prefix) {
		b = ms.prefix[ms.pos]
	} else {
		if len(ms.taken) >= mergeMaxDepth {
			panic(mergeAbort{"depth"})
		}
		b = true
		alt := append(append([]bool{}, ms.taken...), false)
		ms.alts = append(ms.alts, alt)
	}
	ms.pos++
	ms.taken = append(ms.taken, b)
	t := cond
	if !b {
		t = neg
	}
	ms.conds = append(ms.conds, t)
	// make later identical tests on this sub-path resolve without a new decision
	if !m.path.pcSet[t] {
		m.path.pcSet[t] = true
		ms.added = append(ms.added, t)
	}
	return b
}

func scalarKindOfResult(v value) (types.BasicKind, bool) {
	k := kindOf(v)
	return k, k != types.Invalid
}

// callMerged returns (result, true) if the merge succeeded.
func (m *Machine) callMerged(caller *frame, callpos token.Pos, fn *ssa.Function, args []value, env []value) (res value, ok bool) {
	type outcome struct {
		cond *smt.Term
		val  value
	}
	var outs []outcome
	work := [][]bool{nil}
	savedSteps := m.steps
	fail := false
	for len(work) > 0 && !fail {
		pre := work[len(work)-1]
		work = work[:len(work)-1]
		ms := &mergeState{prefix: pre}
		m.merge = ms
		var val value
		func() {
			defer func() {
				m.merge = nil
				for _, t := range ms.added {
					delete(m.path.pcSet, t)
				}
				if r := recover(); r != nil {
					if a, isAbort := r.(abortPath); isAbort && a.Kind == "budget" {
						panic(r)
					}
					// any panic on a sub-path (possibly an infeasible one): give up merging
					fail = true
				}
			}()
			val = m.callSSAPlain(caller, callpos, fn, args, env)
		}()
		if fail {
			break
		}
		c := m.ctx.True()
		for _, t := range ms.conds {
			c = m.ctx.And(c, t)
		}
		outs = append(outs, outcome{c, val})
		work = append(work, ms.alts...)
		if len(outs) > mergeMaxPaths {
			fail = true
		}
	}
	if fail || len(outs) == 0 {
		m.steps = savedSteps
		m.IntrinsicsHit["merge-fallback:"+fnKey(fn)]++
		return nil, false
	}
	m.IntrinsicsHit["merged:"+fnKey(fn)]++
	// combine
	combine := func(get func(value) value) (value, bool) {
		first := get(outs[len(outs)-1].val)
		k, isScalar := scalarKindOfResult(first)
		if !isScalar {
			// non-scalar results must be identical on all sub-paths
			return nil, false
		}
		acc := m.termOf(first)
		for i := len(outs) - 2; i >= 0; i-- {
			v := get(outs[i].val)
			if kk, ok := scalarKindOfResult(v); !ok || kk != k {
				return nil, false
			}
			acc = m.ctx.Ite(outs[i].cond, m.termOf(v), acc)
		}
		return m.fromTerm(acc, k), true
	}
	if len(outs) == 1 {
		return outs[0].val, true
	}
	switch first := outs[0].val.(type) {
	case tuple:
		out := make(tuple, len(first))
		for i := range first {
			i := i
			v, ok := combine(func(x value) value { return x.(tuple)[i] })
			if !ok {
				m.IntrinsicsHit["merge-fallback:"+fnKey(fn)]++
				return nil, false
			}
			out[i] = v
		}
		return out, true
	case nil:
		return nil, true
	default:
		v, ok := combine(func(x value) value { return x })
		if !ok {
			m.IntrinsicsHit["merge-fallback:"+fnKey(fn)]++
			return nil, false
		}
		return v, true
	}
}
