package symx

import (
	"go/types"

	"golang.org/x/tools/go/ssa"
)

func init() {
	// context.WithValue: the real function minus the reflectlite comparability check.
	reg("context.WithValue", func(m *Machine, fr *frame, fn *ssa.Function, args []value) value {
		pkg := m.prog.ImportedPackage("context")
		t := pkg.Type("valueCtx").Object().Type()
		var cell value = structure{args[0], args[1], args[2]}
		return iface{t: types.NewPointer(t), v: &cell}
	})
	// directio.AlignedBlock: alignment is irrelevant for interpreter slices
	reg("github.com/ncw/directio.AlignedBlock", func(m *Machine, fr *frame, fn *ssa.Function, args []value) value {
		n := int(asInt64(args[0]))
		s := make([]value, n)
		for i := range s {
			s[i] = uint8(0)
		}
		return s
	})
	// schema inference is reflection over key/value types and only fills descriptive metadata
	reg("github.com/sharedcode/sop.InferSchemaFromTypes", noop)
	// contextName is only used for String()
	reg("context.contextName", func(m *Machine, fr *frame, fn *ssa.Function, args []value) value { return "ctx" })
}
