package symx

import (
	"go/token"
	"go/types"

	"golang.org/x/tools/go/ssa"
)

func init() {
	// context.WithValue: the real function minus the reflectlite comparability check.
	reg("context.WithValue", func(m *Machine, fr *frame, fn *ssa.Function, args []value) value {
		pkg := m.prog.ImportedPackage("context")
		t := pkg.Type("valueCtx").Object().Type()
		var cell value = structure{args[0], args[1], args[2]}
		return iface{t: types.NewPointer(t), v: &cell}
	})
	// directio.AlignedBlock: alignment is irrelevant for interpreter slices
	reg("github.com/ncw/directio.AlignedBlock", func(m *Machine, fr *frame, fn *ssa.Function, args []value) value {
		n := int(asInt64(args[0]))
		s := make([]value, n)
		for i := range s {
			s[i] = uint8(0)
		}
		return s
	})
	// schema inference is reflection over key/value types and only fills descriptive metadata
	reg("github.com/sharedcode/sop.InferSchemaFromTypes", noop)
	// sort.Slice / SliceStable swap through reflection: stable insertion sort over the slice
	// with the caller's less function (a symbolic less forks through the usual Decide).
	sortSlice := func(m *Machine, fr *frame, fn *ssa.Function, args []value) value {
		it := args[0].(iface)
		s, _ := it.v.([]value)
		for i := 1; i < len(s); i++ {
			for j := i; j > 0; j-- {
				if !m.truth(m.call(fr, token.NoPos, args[1], []value{j, j - 1})) {
					break
				}
				s[j], s[j-1] = s[j-1], s[j]
			}
		}
		return nil
	}
	reg("sort.Slice", sortSlice)
	reg("sort.SliceStable", sortSlice)
	// contextName is only used for String()
	reg("context.contextName", func(m *Machine, fr *frame, fn *ssa.Function, args []value) value { return "ctx" })
}
