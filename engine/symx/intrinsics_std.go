package symx

import (
	"fmt"
	"go/token"
	"go/types"
	"strings"
	"time"

	"golang.org/x/tools/go/ssa"

	"gosmt/smt"
)

// ---- time model ----
//
// time.Time is kept as its real struct {wall uint64; ext int64; loc *Location}
// but with a private meaning: ext = milliseconds since the Unix epoch (concrete
// or symbolic), wall = additional nanoseconds in [0,1e6) (always concrete).
// The zero Time is {0,0,nil}. All time.Time methods used by sop are intrinsics.

const msNs = int64(1_000_000)

func (m *Machine) mkTime(ms value, rem int64) value {
	return structure{uint64(rem), ms, (*value)(nil)}
}

func timeParts(t value) (ms value, rem int64) {
	s := t.(structure)
	return s[1], int64(s[0].(uint64))
}

func (m *Machine) i64(v value) value { // normalise to int64 kind
	switch x := v.(type) {
	case *Sym:
		if x.K == types.Int64 {
			return x
		}
		return m.fromTerm(m.ctx.Resize(x.T, 64, kindSigned(x.K)), types.Int64)
	}
	return asInt64(v)
}

func (m *Machine) add64(a, b value) value { return m.binop(token.ADD, nil, m.i64(a), m.i64(b)) }
func (m *Machine) sub64(a, b value) value { return m.binop(token.SUB, nil, m.i64(a), m.i64(b)) }
func (m *Machine) mul64(a, b value) value { return m.binop(token.MUL, nil, m.i64(a), m.i64(b)) }
func (m *Machine) div64(a, b value) value { return m.binop(token.QUO, nil, m.i64(a), m.i64(b)) }
func (m *Machine) rem64(a, b value) value { return m.binop(token.REM, nil, m.i64(a), m.i64(b)) }

// durSplit splits a duration (ns) into whole milliseconds and remainder.
func (m *Machine) durSplit(d value) (ms value, rem int64) {
	if s, ok := d.(*Sym); ok {
		// symbolic durations are taken at millisecond granularity (truncated)
		return m.div64(s, msNs), 0
	}
	n := asInt64(d)
	return n / msNs, n % msNs
}

func (m *Machine) timeNow() value {
	ms := m.now()
	return m.mkTime(ms, 0)
}

func init() {
	reg("time.Now", func(m *Machine, fr *frame, fn *ssa.Function, args []value) value { return m.timeNow() })
	reg(vfPkg+".Now", func(m *Machine, fr *frame, fn *ssa.Function, args []value) value { return m.timeNow() })
	reg("time.Since", func(m *Machine, fr *frame, fn *ssa.Function, args []value) value {
		return m.timeSub(m.timeNow(), args[0])
	})
	reg("time.Until", func(m *Machine, fr *frame, fn *ssa.Function, args []value) value {
		return m.timeSub(args[0], m.timeNow())
	})
	reg("time.Sleep", func(m *Machine, fr *frame, fn *ssa.Function, args []value) value {
		m.sleep(args[0])
		return nil
	})
	reg("(time.Time).Add", func(m *Machine, fr *frame, fn *ssa.Function, args []value) value {
		ms, rem := timeParts(args[0])
		dms, drem := m.durSplit(args[1])
		r := rem + drem
		nms := m.add64(ms, dms)
		if r >= msNs {
			nms = m.add64(nms, int64(1))
			r -= msNs
		} else if r < 0 {
			nms = m.sub64(nms, int64(1))
			r += msNs
		}
		return m.mkTime(nms, r)
	})
	reg("(time.Time).Sub", func(m *Machine, fr *frame, fn *ssa.Function, args []value) value {
		return m.timeSub(args[0], args[1])
	})
	cmp := func(name string, f func(m *Machine, a, b value) value) {
		reg(name, func(m *Machine, fr *frame, fn *ssa.Function, args []value) value { return f(m, args[0], args[1]) })
	}
	cmp("(time.Time).Before", func(m *Machine, a, b value) value { return m.timeLess(a, b) })
	cmp("(time.Time).After", func(m *Machine, a, b value) value { return m.timeLess(b, a) })
	cmp("(time.Time).Equal", func(m *Machine, a, b value) value {
		am, ar := timeParts(a)
		bm, br := timeParts(b)
		return m.andv(m.binop(token.EQL, types.Typ[types.Int64], m.i64(am), m.i64(bm)), ar == br)
	})
	cmp("(time.Time).Compare", func(m *Machine, a, b value) value {
		lt := m.timeLess(a, b)
		gt := m.timeLess(b, a)
		if lb, ok := lt.(bool); ok {
			if gb, ok := gt.(bool); ok {
				switch {
				case lb:
					return -1
				case gb:
					return 1
				}
				return 0
			}
		}
		c := m.ctx
		return m.fromTerm(c.Ite(m.boolTerm(lt), c.BVC(64, ^uint64(0)), c.Ite(m.boolTerm(gt), c.BVC(64, 1), c.BVC(64, 0))), types.Int)
	})
	reg("(time.Time).IsZero", func(m *Machine, fr *frame, fn *ssa.Function, args []value) value {
		ms, rem := timeParts(args[0])
		return m.andv(m.binop(token.EQL, types.Typ[types.Int64], m.i64(ms), int64(0)), rem == 0)
	})
	reg("(time.Time).UnixMilli", func(m *Machine, fr *frame, fn *ssa.Function, args []value) value {
		ms, _ := timeParts(args[0])
		return m.i64(ms)
	})
	reg("(time.Time).Unix", func(m *Machine, fr *frame, fn *ssa.Function, args []value) value {
		ms, _ := timeParts(args[0])
		return m.div64(ms, int64(1000))
	})
	reg("(time.Time).UnixNano", func(m *Machine, fr *frame, fn *ssa.Function, args []value) value {
		ms, rem := timeParts(args[0])
		return m.add64(m.mul64(ms, msNs), rem)
	})
	reg("(time.Time).UnixMicro", func(m *Machine, fr *frame, fn *ssa.Function, args []value) value {
		ms, rem := timeParts(args[0])
		return m.add64(m.mul64(ms, int64(1000)), rem/1000)
	})
	ident := func(m *Machine, fr *frame, fn *ssa.Function, args []value) value { return args[0] }
	for _, n := range []string{"(time.Time).UTC", "(time.Time).Local", "(time.Time).In", "(time.Time).Round", "(time.Time).stripMono"} {
		reg(n, ident)
	}
	reg("(*time.Time).stripMono", noop)
	reg("(time.Time).Truncate", func(m *Machine, fr *frame, fn *ssa.Function, args []value) value {
		ms, rem := timeParts(args[0])
		d := asInt64(args[1])
		if d <= 0 {
			return args[0]
		}
		if d%msNs != 0 {
			panic(unmodelled("Time.Truncate with sub-millisecond unit"))
		}
		_ = rem
		dm := d / msNs
		return m.mkTime(m.sub64(ms, m.rem64(ms, dm)), 0)
	})
	reg("time.Unix", func(m *Machine, fr *frame, fn *ssa.Function, args []value) value {
		sec, nsec := args[0], args[1]
		if isSym(nsec) {
			panic(unmodelled("time.Unix with symbolic nsec"))
		}
		n := asInt64(nsec)
		ms := m.add64(m.mul64(sec, int64(1000)), n/msNs)
		return m.mkTime(ms, n%msNs)
	})
	reg("time.UnixMilli", func(m *Machine, fr *frame, fn *ssa.Function, args []value) value {
		return m.mkTime(m.i64(args[0]), 0)
	})
	reg("(time.Time).Format", func(m *Machine, fr *frame, fn *ssa.Function, args []value) value {
		ms, rem := timeParts(args[0])
		if isSym(ms) {
			panic(unmodelled("Time.Format of a symbolic time"))
		}
		layout := mustString(args[1], "Time.Format layout")
		return time.Unix(0, asInt64(ms)*msNs+rem).UTC().Format(layout)
	})
	reg("(time.Time).String", func(m *Machine, fr *frame, fn *ssa.Function, args []value) value {
		ms, _ := timeParts(args[0])
		if isSym(ms) {
			return "<symbolic time>"
		}
		return time.UnixMilli(asInt64(ms)).UTC().String()
	})
	reg("time.Parse", func(m *Machine, fr *frame, fn *ssa.Function, args []value) value {
		layout := mustString(args[0], "time.Parse layout")
		s := mustString(args[1], "time.Parse value")
		t, err := time.Parse(layout, s)
		if err != nil {
			return tuple{m.mkTime(int64(0), 0), m.mkError("time.Parse: " + err.Error())}
		}
		return tuple{m.mkTime(t.UnixMilli(), int64(t.Nanosecond())%msNs), iface{}}
	})
	reg("time.After", func(m *Machine, fr *frame, fn *ssa.Function, args []value) value {
		m.sleep(args[0])
		ch := make(chan value, 1)
		ch <- m.timeNow()
		return ch
	})
	reg("time.AfterFunc", func(m *Machine, fr *frame, fn *ssa.Function, args []value) value {
		// timers never fire on their own in the single-threaded model
		return zeroResults(fn)
	})
	reg("(*time.Timer).Stop", func(m *Machine, fr *frame, fn *ssa.Function, args []value) value { return true })
	reg("time.NewTimer", func(m *Machine, fr *frame, fn *ssa.Function, args []value) value {
		panic(unmodelled("time.NewTimer"))
	})

	// ---- sop helpers modelled at their own level ----
	const sopPkg = "github.com/sharedcode/sop"
	reg(sopPkg+".Sleep", func(m *Machine, fr *frame, fn *ssa.Function, args []value) value {
		m.sleep(args[1])
		return nil
	})
	reg(sopPkg+".RandomSleepWithUnit", func(m *Machine, fr *frame, fn *ssa.Function, args []value) value {
		unit := args[1]
		if m.clock.symbolic {
			c := m.ctx
			k := c.Var(m.path.uniqueName("jitter!"), smt.BV(64))
			m.Axiom(c.And(c.ULe(c.BVC(64, 1), k), c.ULe(k, c.BVC(64, 4))))
			m.sleep(m.mul64(&Sym{T: k, K: types.Int64}, unit))
		} else {
			m.sleep(unit)
		}
		return nil
	})
	reg(sopPkg+".NewUUID", func(m *Machine, fr *frame, fn *ssa.Function, args []value) value { return m.newUUID() })
	reg("github.com/google/uuid.NewRandom", func(m *Machine, fr *frame, fn *ssa.Function, args []value) value {
		return tuple{m.newUUID(), iface{}}
	})
	reg("github.com/google/uuid.New", func(m *Machine, fr *frame, fn *ssa.Function, args []value) value { return m.newUUID() })
	reg("math/rand.NewSource", noop)
	reg("math/rand.New", noop)
	reg("(*math/rand.Rand).Intn", func(m *Machine, fr *frame, fn *ssa.Function, args []value) value { return 0 })
	reg("math/rand.Intn", func(m *Machine, fr *frame, fn *ssa.Function, args []value) value { return 0 })
	reg("math/rand.Int63n", func(m *Machine, fr *frame, fn *ssa.Function, args []value) value { return int64(0) })
}

func (m *Machine) sleep(d value) {
	if dd, ok := d.(*Sym); ok {
		m.advanceClockMs(m.div64(dd, msNs))
		return
	}
	n := asInt64(d)
	if n <= 0 {
		return
	}
	ms := (n + msNs - 1) / msNs
	m.advanceClockMs(ms)
}

func (m *Machine) timeSub(a, b value) value {
	am, ar := timeParts(a)
	bm, br := timeParts(b)
	return m.add64(m.mul64(m.sub64(am, bm), msNs), ar-br)
}

func (m *Machine) timeLess(a, b value) value {
	am, ar := timeParts(a)
	bm, br := timeParts(b)
	lt := m.binop(token.LSS, nil, m.i64(am), m.i64(bm))
	if ar == br || ar > br {
		if ar == br {
			return lt
		}
		return lt
	}
	// ar < br: a<b iff am <= bm
	return m.binop(token.LEQ, nil, m.i64(am), m.i64(bm))
}

func (m *Machine) newUUID() value {
	m.uuidCounter++
	a := make(array, 16)
	n := m.uuidCounter
	// fixed high part, counter in the low bytes; version/variant bits set like uuid v4
	hi := []byte{0x5a, 0x0e, 0x11, 0x22, 0x33, 0x44, 0x40, 0x00}
	for i := 0; i < 8; i++ {
		a[i] = hi[i]
	}
	a[8] = uint8(0x80)
	for i := 0; i < 7; i++ {
		a[15-i] = uint8(n >> (8 * uint(i)))
	}
	return a
}

// ---- errors ----

func (m *Machine) mkError(msg string) value {
	pkg := m.prog.ImportedPackage("errors")
	if pkg == nil {
		panic(unmodelled("errors package not loaded"))
	}
	t := pkg.Type("errorString").Object().Type()
	var cell value = structure{msg}
	return iface{t: types.NewPointer(t), v: &cell}
}

func (m *Machine) mkWrapError(msg string, inner value) value {
	pkg := m.prog.ImportedPackage("fmt")
	if pkg == nil {
		return m.mkError(msg)
	}
	t := pkg.Type("wrapError").Object().Type()
	var cell value = structure{msg, inner}
	return iface{t: types.NewPointer(t), v: &cell}
}

func (m *Machine) methodOf(t types.Type, name string) *ssa.Function {
	ms := m.prog.MethodSets.MethodSet(t)
	for i := 0; i < ms.Len(); i++ {
		if ms.At(i).Obj().Name() == name {
			return m.prog.MethodValue(ms.At(i))
		}
	}
	return nil
}

// errorText calls err.Error() in the interpreter.
func (m *Machine) errorText(e iface) string {
	if e.t == nil {
		return "<nil>"
	}
	f := m.methodOf(e.t, "Error")
	if f == nil {
		return e.t.String()
	}
	r := m.call(nil, token.NoPos, f, []value{e.v})
	if s, ok := r.(string); ok {
		return s
	}
	return "<symbolic error text>"
}

func comparableType(t types.Type) bool { return types.Comparable(t) }

func (m *Machine) unwrapOnce(e iface) []iface {
	f := m.methodOf(e.t, "Unwrap")
	if f == nil {
		return nil
	}
	res := f.Signature.Results()
	if res.Len() != 1 {
		return nil
	}
	r := m.call(nil, token.NoPos, f, []value{e.v})
	switch r := r.(type) {
	case iface:
		if r.t == nil {
			return nil
		}
		return []iface{r}
	case []value:
		var out []iface
		for _, x := range r {
			if xi, ok := x.(iface); ok && xi.t != nil {
				out = append(out, xi)
			}
		}
		return out
	}
	return nil
}

func (m *Machine) errorsIs(err, target iface) bool {
	if err.t == nil || target.t == nil {
		return err.t == nil && target.t == nil
	}
	if comparableType(target.t) && sameType(err.t, target.t) {
		if m.truth(m.equals(err.t, err.v, target.v)) {
			return true
		}
	}
	if f := m.methodOf(err.t, "Is"); f != nil && f.Signature.Params().Len() == 1 {
		if m.truth(m.call(nil, token.NoPos, f, []value{err.v, target})) {
			return true
		}
	}
	for _, u := range m.unwrapOnce(err) {
		if m.errorsIs(u, target) {
			return true
		}
	}
	return false
}

func (m *Machine) errorsAs(err iface, target iface) bool {
	// target is *T
	pt, ok := target.t.Underlying().(*types.Pointer)
	if !ok {
		panic(targetPanic{iface{types.Typ[types.String], "errors: target must be a non-nil pointer"}})
	}
	T := pt.Elem()
	cell := target.v.(*value)
	for e := err; e.t != nil; {
		if it, isIface := T.Underlying().(*types.Interface); isIface {
			if types.Implements(e.t, it) {
				*cell = e
				return true
			}
		} else if types.Identical(e.t, T) {
			store(T, cell, e.v)
			return true
		}
		if f := m.methodOf(e.t, "As"); f != nil && f.Signature.Params().Len() == 1 {
			if m.truth(m.call(nil, token.NoPos, f, []value{e.v, target})) {
				return true
			}
		}
		us := m.unwrapOnce(e)
		if len(us) == 0 {
			return false
		}
		if len(us) > 1 {
			for _, u := range us {
				if m.errorsAs(u, target) {
					return true
				}
			}
			return false
		}
		e = us[0]
	}
	return false
}

func init() {
	reg("errors.Is", func(m *Machine, fr *frame, fn *ssa.Function, args []value) value {
		return m.errorsIs(args[0].(iface), args[1].(iface))
	})
	reg("errors.As", func(m *Machine, fr *frame, fn *ssa.Function, args []value) value {
		return m.errorsAs(args[0].(iface), args[1].(iface))
	})
	reg("errors.Unwrap", func(m *Machine, fr *frame, fn *ssa.Function, args []value) value {
		e := args[0].(iface)
		if e.t == nil {
			return iface{}
		}
		f := m.methodOf(e.t, "Unwrap")
		if f == nil || f.Signature.Results().Len() != 1 {
			return iface{}
		}
		if r, ok := m.call(nil, token.NoPos, f, []value{e.v}).(iface); ok {
			return r
		}
		return iface{}
	})
	reg("errors.Join", func(m *Machine, fr *frame, fn *ssa.Function, args []value) value {
		var msgs []string
		var first value
		for _, e := range args[0].([]value) {
			ei := e.(iface)
			if ei.t != nil {
				if first == nil {
					first = ei
				}
				msgs = append(msgs, m.errorText(ei))
			}
		}
		if first == nil {
			return iface{}
		}
		return m.mkWrapError(strings.Join(msgs, "\n"), first)
	})
}

// ---- fmt (native bridging for concrete arguments) ----

type nativeText struct{ s string }

func (n nativeText) String() string { return n.s }
func (n nativeText) Error() string  { return n.s }

func (m *Machine) toNative(v value) (any, bool) {
	switch x := v.(type) {
	case nil:
		return nil, true
	case bool, int, int8, int16, int32, int64, uint, uint8, uint16, uint32, uint64, uintptr, float32, float64, complex64, complex128, string:
		return x, true
	case *Sym:
		return "<sym>", false
	case sstr:
		return "<symstr>", false
	case ostr:
		return "<opaque>", false
	case iface:
		if x.t == nil {
			return nil, true
		}
		if f := m.methodOf(x.t, "Error"); f != nil && f.Signature.Params().Len() == 0 {
			if s, ok := m.call(nil, token.NoPos, f, []value{x.v}).(string); ok {
				return nativeText{s}, true
			}
			return nativeText{"<symbolic>"}, false
		}
		if f := m.methodOf(x.t, "String"); f != nil && f.Signature.Params().Len() == 0 && f.Signature.Results().Len() == 1 {
			if s, ok := m.call(nil, token.NoPos, f, []value{x.v}).(string); ok {
				return nativeText{s}, true
			}
			return nativeText{"<symbolic>"}, false
		}
		// named basic types print like their underlying value
		return m.toNative(x.v)
	case []value:
		allBytes := len(x) > 0
		for _, e := range x {
			if _, ok := e.(uint8); !ok {
				allBytes = false
			}
		}
		if allBytes {
			b := make([]byte, len(x))
			for i, e := range x {
				b[i] = e.(uint8)
			}
			return b, true
		}
		out := make([]any, len(x))
		ok := true
		for i, e := range x {
			var o bool
			out[i], o = m.toNative(e)
			ok = ok && o
		}
		return out, ok
	case array:
		out := make([]any, len(x))
		ok := true
		for i, e := range x {
			var o bool
			out[i], o = m.toNative(e)
			ok = ok && o
		}
		return out, ok
	case structure:
		out := make([]any, len(x))
		ok := true
		for i, e := range x {
			var o bool
			out[i], o = m.toNative(e)
			ok = ok && o
		}
		return out, ok
	case *value:
		if x == nil {
			return nil, true
		}
		return fmt.Sprintf("%p", x), true
	}
	return fmt.Sprintf("<%T>", v), true
}

func (m *Machine) nativeArgs(args []value) ([]any, bool) {
	out := make([]any, len(args))
	ok := true
	for i, a := range args {
		var o bool
		out[i], o = m.toNative(a)
		ok = ok && o
	}
	return out, ok
}

func init() {
	reg("fmt.Sprintf", func(m *Machine, fr *frame, fn *ssa.Function, args []value) value {
		format := mustString(args[0], "fmt.Sprintf format")
		na, ok := m.nativeArgs(args[1].([]value))
		if !ok {
			// The text depends on symbolic data: return an opaque string (a fresh element of the
			// uninterpreted string sort). Logging it is harmless; comparing it forks on an
			// unconstrained equality; anything else (indexing, concatenation) is unmodelled.
			m.IntrinsicsHit["fmt.Sprintf(symbolic argument -> opaque string)"]++
			return ostr{m.ctx.Var(m.path.uniqueName("fmt!text")+"~str", smt.StrSort)}
		}
		return fmt.Sprintf(format, na...)
	})
	reg("fmt.Sprint", func(m *Machine, fr *frame, fn *ssa.Function, args []value) value {
		na, _ := m.nativeArgs(args[0].([]value))
		return fmt.Sprint(na...)
	})
	reg("fmt.Sprintln", func(m *Machine, fr *frame, fn *ssa.Function, args []value) value {
		na, _ := m.nativeArgs(args[0].([]value))
		return fmt.Sprintln(na...)
	})
	reg("fmt.Errorf", func(m *Machine, fr *frame, fn *ssa.Function, args []value) value {
		format := mustString(args[0], "fmt.Errorf format")
		va := args[1].([]value)
		na, _ := m.nativeArgs(va)
		msg := fmt.Sprintf(strings.ReplaceAll(format, "%w", "%v"), na...)
		if strings.Contains(format, "%w") {
			// wrap the first error operand matching a %w verb
			for _, a := range va {
				if ai, ok := a.(iface); ok && ai.t != nil && m.methodOf(ai.t, "Error") != nil {
					return m.mkWrapError(msg, ai)
				}
			}
		}
		return m.mkError(msg)
	})
	for _, n := range []string{"fmt.Printf", "fmt.Println", "fmt.Print", "fmt.Fprintf", "fmt.Fprintln", "fmt.Fprint"} {
		reg(n, noop)
	}
}

// ---- sync, atomic ----

func init() {
	for _, n := range []string{
		"(*sync.Mutex).Lock", "(*sync.Mutex).Unlock", "(*sync.RWMutex).Lock", "(*sync.RWMutex).Unlock",
		"(*sync.RWMutex).RLock", "(*sync.RWMutex).RUnlock", "(*sync.WaitGroup).Add", "(*sync.WaitGroup).Done",
		"(*sync.WaitGroup).Wait", "(*sync.Cond).Broadcast", "(*sync.Cond).Signal", "(*sync.Pool).Put",
	} {
		reg(n, noop)
	}
	reg("(*sync.Mutex).TryLock", func(m *Machine, fr *frame, fn *ssa.Function, args []value) value { return true })
	reg("(*sync.RWMutex).TryLock", func(m *Machine, fr *frame, fn *ssa.Function, args []value) value { return true })
	reg("(*sync.RWMutex).TryRLock", func(m *Machine, fr *frame, fn *ssa.Function, args []value) value { return true })
	reg("(*sync.WaitGroup).Go", func(m *Machine, fr *frame, fn *ssa.Function, args []value) value {
		m.call(fr, token.NoPos, args[1], nil)
		return nil
	})
	reg("(*sync.Once).Do", func(m *Machine, fr *frame, fn *ssa.Function, args []value) value {
		key := args[0].(*value)
		done, _ := m.nativeState["once"].(map[*value]bool)
		if done == nil {
			done = map[*value]bool{}
			m.nativeState["once"] = done
		}
		if !done[key] {
			done[key] = true
			m.call(fr, token.NoPos, args[1], nil)
		}
		return nil
	})
	reg("(*sync.Pool).Get", func(m *Machine, fr *frame, fn *ssa.Function, args []value) value {
		p := args[0].(*value)
		st := (*p).(structure)
		// field "New" is the last field of sync.Pool
		newf := st[len(st)-1]
		if isNilRef(newf) {
			return iface{}
		}
		return m.call(fr, token.NoPos, newf, nil)
	})
	// sync.Map as an ordered map keyed by the receiver pointer
	smap := func(m *Machine, recv value) *omap {
		key := recv.(*value)
		tab, _ := m.nativeState["syncmap"].(map[*value]*omap)
		if tab == nil {
			tab = map[*value]*omap{}
			m.nativeState["syncmap"] = tab
		}
		if tab[key] == nil {
			tab[key] = makeMap(types.NewInterfaceType(nil, nil))
		}
		return tab[key]
	}
	reg("(*sync.Map).Load", func(m *Machine, fr *frame, fn *ssa.Function, args []value) value {
		if e := smap(m, args[0]).find(m, args[1]); e != nil {
			return tuple{e.val, true}
		}
		return tuple{iface{}, false}
	})
	reg("(*sync.Map).Store", func(m *Machine, fr *frame, fn *ssa.Function, args []value) value {
		smap(m, args[0]).insert(m, args[1], args[2])
		return nil
	})
	reg("(*sync.Map).Delete", func(m *Machine, fr *frame, fn *ssa.Function, args []value) value {
		smap(m, args[0]).delete(m, args[1])
		return nil
	})
	reg("(*sync.Map).LoadOrStore", func(m *Machine, fr *frame, fn *ssa.Function, args []value) value {
		mp := smap(m, args[0])
		if e := mp.find(m, args[1]); e != nil {
			return tuple{e.val, true}
		}
		mp.insert(m, args[1], args[2])
		return tuple{args[2], false}
	})
	reg("(*sync.Map).LoadAndDelete", func(m *Machine, fr *frame, fn *ssa.Function, args []value) value {
		mp := smap(m, args[0])
		if e := mp.find(m, args[1]); e != nil {
			v := e.val
			mp.delete(m, args[1])
			return tuple{v, true}
		}
		return tuple{iface{}, false}
	})
	reg("(*sync.Map).Range", func(m *Machine, fr *frame, fn *ssa.Function, args []value) value {
		mp := smap(m, args[0])
		snap := append([]*mentry{}, mp.entries...)
		for _, e := range snap {
			if e.deleted {
				continue
			}
			if !m.truth(m.call(fr, token.NoPos, args[1], []value{e.key, e.val})) {
				break
			}
		}
		return nil
	})
	reg("(*sync.Map).Clear", func(m *Machine, fr *frame, fn *ssa.Function, args []value) value {
		smap(m, args[0]).clear()
		return nil
	})

	// sync/atomic free functions on *value cells
	loadf := func(m *Machine, fr *frame, fn *ssa.Function, args []value) value { return *args[0].(*value) }
	storef := func(m *Machine, fr *frame, fn *ssa.Function, args []value) value {
		*args[0].(*value) = args[1]
		return nil
	}
	addf := func(m *Machine, fr *frame, fn *ssa.Function, args []value) value {
		p := args[0].(*value)
		*p = m.binop(token.ADD, nil, *p, args[1])
		return *p
	}
	swapf := func(m *Machine, fr *frame, fn *ssa.Function, args []value) value {
		p := args[0].(*value)
		old := *p
		*p = args[1]
		return old
	}
	casf := func(m *Machine, fr *frame, fn *ssa.Function, args []value) value {
		p := args[0].(*value)
		if m.truth(m.equals(nil, *p, args[1])) {
			*p = args[2]
			return true
		}
		return false
	}
	for _, ty := range []string{"Int32", "Int64", "Uint32", "Uint64", "Uintptr", "Pointer"} {
		reg("sync/atomic.Load"+ty, loadf)
		reg("sync/atomic.Store"+ty, storef)
		reg("sync/atomic.Add"+ty, addf)
		reg("sync/atomic.Swap"+ty, swapf)
		reg("sync/atomic.CompareAndSwap"+ty, casf)
	}
	// atomic.Value: struct{ v any }
	reg("(*sync/atomic.Value).Load", func(m *Machine, fr *frame, fn *ssa.Function, args []value) value {
		return (*args[0].(*value)).(structure)[0]
	})
	reg("(*sync/atomic.Value).Store", func(m *Machine, fr *frame, fn *ssa.Function, args []value) value {
		(*args[0].(*value)).(structure)[0] = args[1]
		return nil
	})
	// atomic.Pointer[T]: struct{ _ [0]*T; _ noCopy; v unsafe.Pointer } -> keep the *value in field 2
	reg("(*sync/atomic.Pointer[T]).Load", func(m *Machine, fr *frame, fn *ssa.Function, args []value) value {
		st := (*args[0].(*value)).(structure)
		if p, ok := st[len(st)-1].(*value); ok {
			return p
		}
		return (*value)(nil)
	})
	reg("(*sync/atomic.Pointer[T]).Store", func(m *Machine, fr *frame, fn *ssa.Function, args []value) value {
		st := (*args[0].(*value)).(structure)
		st[len(st)-1] = args[1]
		return nil
	})
	reg("(*sync/atomic.Pointer[T]).Swap", func(m *Machine, fr *frame, fn *ssa.Function, args []value) value {
		st := (*args[0].(*value)).(structure)
		old, _ := st[len(st)-1].(*value)
		st[len(st)-1] = args[1]
		return old
	})
	reg("(*sync/atomic.Pointer[T]).CompareAndSwap", func(m *Machine, fr *frame, fn *ssa.Function, args []value) value {
		st := (*args[0].(*value)).(structure)
		cur, _ := st[len(st)-1].(*value)
		if cur == args[1].(*value) {
			st[len(st)-1] = args[2]
			return true
		}
		return false
	})

	// errgroup: tasks run at submission, first error kept
	const eg = "golang.org/x/sync/errgroup"
	reg(eg+".WithContext", func(m *Machine, fr *frame, fn *ssa.Function, args []value) value {
		T := fn.Signature.Results().At(0).Type().(*types.Pointer).Elem()
		cell := zero(T)
		return tuple{&cell, args[0]}
	})
	egErr := func(m *Machine, g value) map[*value]value {
		tab, _ := m.nativeState["errgroup"].(map[*value]value)
		if tab == nil {
			tab = map[*value]value{}
			m.nativeState["errgroup"] = tab
		}
		return tab
	}
	reg("(*"+eg+".Group).SetLimit", noop)
	reg("(*"+eg+".Group).Go", func(m *Machine, fr *frame, fn *ssa.Function, args []value) value {
		g := args[0].(*value)
		r := m.call(fr, token.NoPos, args[1], nil)
		if ri, ok := r.(iface); ok && ri.t != nil {
			tab := egErr(m, g)
			if _, have := tab[g]; !have {
				tab[g] = ri
			}
		}
		return nil
	})
	reg("(*"+eg+".Group).TryGo", func(m *Machine, fr *frame, fn *ssa.Function, args []value) value {
		g := args[0].(*value)
		r := m.call(fr, token.NoPos, args[1], nil)
		if ri, ok := r.(iface); ok && ri.t != nil {
			tab := egErr(m, g)
			if _, have := tab[g]; !have {
				tab[g] = ri
			}
		}
		return true
	})
	reg("(*"+eg+".Group).Wait", func(m *Machine, fr *frame, fn *ssa.Function, args []value) value {
		g := args[0].(*value)
		tab := egErr(m, g)
		if e, ok := tab[g]; ok {
			delete(tab, g)
			return e
		}
		return iface{}
	})
}

// ---- bytes / strings leaf functions ----

func (m *Machine) bytesOf(v value) []value {
	switch v := v.(type) {
	case []value:
		return v
	case string:
		return strBytes(v)
	case sstr:
		return v.b
	}
	panic(unmodelled(fmt.Sprintf("bytesOf(%T)", v)))
}

func (m *Machine) bytesEqual(a, b []value) value {
	if len(a) != len(b) {
		return false
	}
	var res value = true
	for i := range a {
		res = m.andv(res, m.equals(nil, a[i], b[i]))
		if r, ok := res.(bool); ok && !r {
			return false
		}
	}
	return res
}

func (m *Machine) bytesCompare(a, b []value) value {
	c := m.ctx
	n := len(a)
	if len(b) < n {
		n = len(b)
	}
	var tail int64
	switch {
	case len(a) < len(b):
		tail = -1
	case len(a) > len(b):
		tail = 1
	}
	res := c.BVC(64, uint64(tail))
	for i := n - 1; i >= 0; i-- {
		x, y := m.termOf(a[i]), m.termOf(b[i])
		res = c.Ite(c.Eq(x, y), res, c.Ite(c.ULt(x, y), c.BVC(64, ^uint64(0)), c.BVC(64, 1)))
	}
	return m.fromTerm(res, types.Int)
}

func (m *Machine) indexByte(b []value, ch value) value {
	for i := range b {
		if m.truth(m.equals(nil, b[i], ch)) {
			return i
		}
	}
	return -1
}

func (m *Machine) indexBytes(hay, needle []value) value {
	if len(needle) == 0 {
		return 0
	}
	for i := 0; i+len(needle) <= len(hay); i++ {
		if m.truth(m.bytesEqual(hay[i:i+len(needle)], needle)) {
			return i
		}
	}
	return -1
}

func init() {
	eq := func(m *Machine, fr *frame, fn *ssa.Function, args []value) value {
		return m.bytesEqual(m.bytesOf(args[0]), m.bytesOf(args[1]))
	}
	reg("bytes.Equal", eq)
	reg("internal/bytealg.Equal", eq)
	cmpf := func(m *Machine, fr *frame, fn *ssa.Function, args []value) value {
		return m.bytesCompare(m.bytesOf(args[0]), m.bytesOf(args[1]))
	}
	reg("bytes.Compare", cmpf)
	reg("internal/bytealg.Compare", cmpf)
	reg("internal/bytealg.CompareString", cmpf)
	reg("strings.Compare", cmpf)
	ib := func(m *Machine, fr *frame, fn *ssa.Function, args []value) value {
		return m.indexByte(m.bytesOf(args[0]), args[1])
	}
	reg("bytes.IndexByte", ib)
	reg("strings.IndexByte", ib)
	reg("internal/bytealg.IndexByte", ib)
	reg("internal/bytealg.IndexByteString", ib)
	idx := func(m *Machine, fr *frame, fn *ssa.Function, args []value) value {
		return m.indexBytes(m.bytesOf(args[0]), m.bytesOf(args[1]))
	}
	reg("bytes.Index", idx)
	reg("strings.Index", idx)
	reg("internal/bytealg.Index", idx)
	reg("internal/bytealg.IndexString", idx)
	reg("internal/stringslite.Index", idx)
	reg("strings.Contains", func(m *Machine, fr *frame, fn *ssa.Function, args []value) value {
		r := m.indexBytes(m.bytesOf(args[0]), m.bytesOf(args[1]))
		return r.(int) >= 0
	})
	cnt := func(m *Machine, fr *frame, fn *ssa.Function, args []value) value {
		n := 0
		for _, b := range m.bytesOf(args[0]) {
			if m.truth(m.equals(nil, b, args[1])) {
				n++
			}
		}
		return n
	}
	reg("internal/bytealg.Count", cnt)
	reg("internal/bytealg.CountString", cnt)
	reg("internal/bytealg.MakeNoZero", func(m *Machine, fr *frame, fn *ssa.Function, args []value) value {
		n := int(asInt64(args[0]))
		s := make([]value, n)
		for i := range s {
			s[i] = uint8(0)
		}
		return s
	})
	reg("(*strings.Builder).String", func(m *Machine, fr *frame, fn *ssa.Function, args []value) value {
		st := (*args[0].(*value)).(structure)
		buf, _ := st[1].([]value)
		return normStr(append([]value{}, buf...))
	})
	reg("(*strings.Builder).copyCheck", noop)
	reg("strings.Clone", func(m *Machine, fr *frame, fn *ssa.Function, args []value) value { return args[0] })
	reg("bytes.Clone", func(m *Machine, fr *frame, fn *ssa.Function, args []value) value {
		b := args[0].([]value)
		if b == nil {
			return b
		}
		return append([]value{}, b...)
	})
	reg("hash/crc32.ChecksumIEEE", func(m *Machine, fr *frame, fn *ssa.Function, args []value) value {
		return m.hashUF("crc32", args[0].([]value), 32, types.Uint32)
	})
}

// hashUF models a hash as a collision-free function: a fresh result per
// application, with h_i = h_j <=> inputs equal asserted against every earlier
// application of the same function on this path.
type hashApp struct {
	in  []value
	out *smt.Term
}

func (m *Machine) hashUF(name string, in []value, width int, k types.BasicKind) value {
	apps, _ := m.nativeState["hash:"+name].([]hashApp)
	c := m.ctx
	cp := append([]value{}, in...)
	// identical (syntactically) input: same result
	for _, a := range apps {
		if len(a.in) == len(cp) {
			same := true
			for i := range cp {
				x, y := cp[i], a.in[i]
				if xs, ok := x.(*Sym); ok {
					ys, ok2 := y.(*Sym)
					if !ok2 || xs.T != ys.T {
						same = false
						break
					}
				} else if x != y {
					same = false
					break
				}
			}
			if same {
				return m.fromTerm(a.out, k)
			}
		}
	}
	out := c.Var(m.path.uniqueName(name+"!"), smt.BV(width))
	for _, a := range apps {
		eqIn := m.boolTerm(m.bytesEqual(a.in, cp))
		m.Axiom(c.Eq(c.Eq(a.out, out), eqIn))
	}
	apps = append(apps, hashApp{cp, out})
	m.nativeState["hash:"+name] = apps
	return m.fromTerm(out, k)
}

// advanceClockMs moves the clock forward by ms milliseconds.
func (m *Machine) advanceClockMs(ms value) {
	cs := &m.clock
	if cs.cur == nil {
		cs.cur = clockBaseMs
	}
	cs.cur = m.add64(cs.cur, ms)
}
