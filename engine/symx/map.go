// Copyright 2013 The Go Authors. All rights reserved.
// Use of this source code is governed by a BSD-style
// license that can be found in the LICENSE file.

package interp

// Custom hashtable atop map.
// For use when the key's equivalence relation is not consistent with ==.

// The Go specification doesn't address the atomicity of map operations.
// The FAQ states that an implementation is permitted to crash on
// concurrent map access.

import (
	"go/types"
)

type hashable interface {
	hash(t types.Type) int
	eq(t types.Type, x any) bool
}

type entry struct {
	key   hashable
	value value
	next  *entry
}

// A hashtable atop the built-in map.  Since each bucket contains
// exactly one hash value, there's no need to perform hash-equality
// tests when walking the linked list.  Rehashing is done by the
// underlying map.
type hashmap struct {
	keyType types.Type
	table   map[int]*entry
	length  int // number of entries in map
}

// makeMap returns an empty initialized map of key type kt,
// preallocating space for reserve elements.
func makeMap(kt types.Type, reserve int64) value {
	if usesBuiltinMap(kt) {
		return make(map[value]value, reserve)
	}
	return &hashmap{keyType: kt, table: make(map[int]*entry, reserve)}
}

// delete removes the association for key k, if any.
func (m *hashmap) delete(k hashable) {
	if m != nil {
		hash := k.hash(m.keyType)
		head := m.table[hash]
		if head != nil {
			if k.eq(m.keyType, head.key) {
				m.table[hash] = head.next
				m.length--
				return
			}
			prev := head
			for e := head.next; e != nil; e = e.next {
				if k.eq(m.keyType, e.key) {
					prev.next = e.next
					m.length--
					return
				}
				prev = e
			}
		}
	}
}

// lookup returns the value associated with key k, if present, or
// value(nil) otherwise.
func (m *hashmap) lookup(k hashable) value {
	if m != nil {
		hash := k.hash(m.keyType)
		for e := m.table[hash]; e != nil; e = e.next {
			if k.eq(m.keyType, e.key) {
				return e.value
			}
		}
	}
	return nil
}

// insert updates the map to associate key k with value v.  If there
// was already an association for an eq() (though not necessarily ==)
// k, the previous key remains in the map and its associated value is
// updated.
func (m *hashmap) insert(k hashable, v value) {
	hash := k.hash(m.keyType)
	head := m.table[hash]
	for e := head; e != nil; e = e.next {
		if k.eq(m.keyType, e.key) {
			e.value = v
			return
		}
	}
	m.table[hash] = &entry{
		key:   k,
		value: v,
		next:  head,
	}
	m.length++
}

// len returns the number of key/value associations in the map.
func (m *hashmap) len() int {
	if m != nil {
		return m.length
	}
	return 0
}

// entries returns a rangeable map of entries.
func (m *hashmap) entries() map[int]*entry {
	if m != nil {
		return m.table
	}
	return nil
}
