package symx

import (
	"fmt"
	"sort"
	"strings"

	"gosmt/smt"
)

// Decision is one recorded outcome at a symbolic choice point.
type Decision struct {
	Kind byte  // 'b' branch, 'c' concretise, 'n' choose
	B    bool  // branch outcome
	V    int64 // concretised value / chosen alternative
	Excl []int64
}

func (d Decision) String() string {
	switch d.Kind {
	case 'b':
		if d.B {
			return "T"
		}
		return "F"
	case 'c':
		return fmt.Sprintf("c%d", d.V)
	case 'n':
		return fmt.Sprintf("n%d", d.V)
	}
	return "?"
}

func PrefixString(p []Decision) string {
	var sb strings.Builder
	for _, d := range p {
		sb.WriteString(d.String())
	}
	return sb.String()
}

// Event is something observable that happened on a path.
type Event struct {
	Kind  string // assert-ok | assert-fail | assert-unknown | reach | panic | known | observe
	Label string
	Msg   string
	Model smt.Model
	Known []string // ids of known-finding regions covering the failure (if all of it)
	Pos   string
}

// Path is the state of one execution.
type Path struct {
	Prefix    []Decision   // decisions to follow
	Taken     []Decision   // all decisions taken (prefix + extension)
	pos       int
	PC        []*smt.Term
	pcSet     map[*smt.Term]bool
	Forks     [][]Decision // alternatives discovered on this run
	Events    []Event
	Tainted   bool // a feasibility answer was unknown: pc may be unsat
	Inputs    []InputRec
	nameCount map[string]int
	Known     []knownRegion
	Queries   int
	AbortKind string
	AbortMsg  string
	Observes  []Observation
	VCs       int
	VCsUnsat  int
}

type knownRegion struct {
	id   string
	cond *smt.Term
}

// InputRec records a symbolic input created by the harness, in creation order.
type InputRec struct {
	Name string
	Kind string // int, int64, ..., bool, bytes:N, choose:N
	Vars []string
}

type Observation struct {
	Label string
	Term  *smt.Term // nil if concrete
	Conc  string
}

func NewPath(prefix []Decision) *Path {
	return &Path{Prefix: prefix, pcSet: map[*smt.Term]bool{}, nameCount: map[string]int{}}
}

func (m *Machine) Path() *Path { return m.path }

func (p *Path) addPC(t *smt.Term) {
	if t.IsTrue() || p.pcSet[t] {
		return
	}
	p.pcSet[t] = true
	p.PC = append(p.PC, t)
}

// uniqueName returns name, name#1, name#2 ... in order of use on this path.
func (p *Path) uniqueName(name string) string {
	n := p.nameCount[name]
	p.nameCount[name] = n + 1
	if n == 0 {
		return name
	}
	return fmt.Sprintf("%s#%d", name, n)
}

// slicePC returns the conjuncts of the path condition that share variables
// (transitively) with q. Sound for satisfiability of pc∧q when pc is
// satisfiable on its own.
func (m *Machine) slicePC(q *smt.Term) []*smt.Term {
	p := m.path
	if len(p.PC) == 0 {
		return nil
	}
	want := map[*smt.Term]bool{}
	smt.VarsOf(q, want, map[*smt.Term]bool{})
	if len(want) == 0 {
		return nil
	}
	varsets := make([]map[*smt.Term]bool, len(p.PC))
	for i, c := range p.PC {
		vs := m.pcVars(c)
		varsets[i] = vs
	}
	used := make([]bool, len(p.PC))
	changed := true
	for changed {
		changed = false
		for i := range p.PC {
			if used[i] {
				continue
			}
			hit := false
			for v := range varsets[i] {
				if want[v] {
					hit = true
					break
				}
			}
			if hit {
				used[i] = true
				changed = true
				for v := range varsets[i] {
					want[v] = true
				}
			}
		}
	}
	var res []*smt.Term
	for i, c := range p.PC {
		if used[i] {
			res = append(res, c)
		}
	}
	return res
}

func (m *Machine) pcVars(c *smt.Term) map[*smt.Term]bool {
	if m.varCache == nil {
		m.varCache = map[*smt.Term]map[*smt.Term]bool{}
	}
	if vs, ok := m.varCache[c]; ok {
		return vs
	}
	vs := map[*smt.Term]bool{}
	smt.VarsOf(c, vs, map[*smt.Term]bool{})
	m.varCache[c] = vs
	return vs
}

// sat decides pc ∧ q. full=true uses the whole path condition.
func (m *Machine) sat(q *smt.Term, wantModel bool, full bool) (smt.Result, smt.Model) {
	if q.IsFalse() {
		return smt.Unsat, nil
	}
	var as []*smt.Term
	if full || m.path.Tainted {
		as = append(as, m.path.PC...)
	} else {
		as = append(as, m.slicePC(q)...)
	}
	as = append(as, q)
	// cheap positive answer from remembered models
	if !wantModel {
		for i := len(m.models) - 1; i >= 0 && i >= len(m.models)-4; i-- {
			if m.evalAll(as, m.models[i]) {
				return smt.Sat, m.models[i]
			}
		}
	}
	m.path.Queries++
	r, mod := m.solver.Check(m.ctx, as, true, m.cfg.SolverTimeout)
	if r == smt.Sat && mod != nil {
		m.models = append(m.models, mod)
		if len(m.models) > 16 {
			m.models = m.models[len(m.models)-8:]
		}
	}
	return r, mod
}

func (m *Machine) evalAll(as []*smt.Term, mod smt.Model) bool {
	memo := map[*smt.Term]uint64{}
	seen := map[*smt.Term]bool{}
	for _, a := range as {
		if smt.HasUF(a, seen) {
			return false
		}
	}
	// every variable of the assertions must be assigned by the model
	vs := map[*smt.Term]bool{}
	sn := map[*smt.Term]bool{}
	for _, a := range as {
		smt.VarsOf(a, vs, sn)
	}
	for v := range vs {
		if _, ok := mod[v.Name]; !ok {
			return false
		}
		if v.S.K == smt.KStr {
			return false
		}
	}
	for _, a := range as {
		if m.ctx.Eval(a, mod, memo) != 1 {
			return false
		}
	}
	return true
}

func (m *Machine) checkDepth() {
	if m.cfg.MaxDecisions > 0 && len(m.path.Taken) >= m.cfg.MaxDecisions {
		panic(abortPath{"budget", fmt.Sprintf("decision depth %d exceeded (unwinding bound)", m.cfg.MaxDecisions)})
	}
}

// Decide returns the truth value of cond on this path, forking if both are feasible.
func (m *Machine) Decide(cond *smt.Term) bool {
	if cond.IsConst() {
		return cond.C == 1
	}
	p := m.path
	if m.impliedSyntactically(cond) {
		return true
	}
	neg := m.ctx.Not(cond)
	if m.impliedSyntactically(neg) {
		return false
	}
	if m.merge != nil {
		return m.merge.decide(m, cond, neg)
	}
	if p.pos < len(p.Prefix) {
		d := p.Prefix[p.pos]
		p.pos++
		if d.Kind != 'b' {
			panic(abortPath{"engine", fmt.Sprintf("non-deterministic replay: expected branch decision at %d, prefix has %c", p.pos-1, d.Kind)})
		}
		p.Taken = append(p.Taken, d)
		if d.B {
			p.addPC(cond)
		} else {
			p.addPC(neg)
		}
		return d.B
	}
	m.checkDepth()
	rt, _ := m.sat(cond, false, false)
	var rf smt.Result
	if rt == smt.Unsat {
		rf = smt.Sat // pc is satisfiable, so the other side must be
	} else {
		rf, _ = m.sat(neg, false, false)
	}
	if rt == smt.Unknown || rf == smt.Unknown {
		p.Tainted = true
	}
	canT := rt != smt.Unsat
	canF := rf != smt.Unsat
	if !canT && !canF {
		// pc itself unsatisfiable (only possible on tainted paths)
		panic(abortPath{"assume", "path condition became unsatisfiable"})
	}
	take := canT
	if canT && canF {
		alt := append(append([]Decision{}, p.Taken...), Decision{Kind: 'b', B: false})
		p.Forks = append(p.Forks, alt)
	}
	p.Taken = append(p.Taken, Decision{Kind: 'b', B: take})
	if take {
		p.addPC(cond)
	} else {
		p.addPC(neg)
	}
	return take
}

// Concretise picks a concrete value for s, forking over all feasible values.
func (m *Machine) Concretise(s *Sym) int64 {
	if s.T.IsConst() {
		return asInt64(fromBits(s.K, s.T.C))
	}
	if m.merge != nil {
		panic(mergeAbort{"concretise inside merged callee"})
	}
	p := m.path
	c := m.ctx
	w := kindWidth(s.K)
	toI := func(bits uint64) int64 { return asInt64(fromBits(s.K, bits)) }
	exclTerm := func(excl []int64) *smt.Term {
		t := c.True()
		for _, e := range excl {
			t = c.And(t, c.Not(c.Eq(s.T, c.BVC(w, uint64(e)))))
		}
		return t
	}
	if p.pos < len(p.Prefix) {
		d := p.Prefix[p.pos]
		if d.Kind != 'c' {
			panic(abortPath{"engine", fmt.Sprintf("non-deterministic replay: expected concretise decision at %d, prefix has %c", p.pos, d.Kind)})
		}
		p.pos++
		if p.pos == len(p.Prefix) && d.V == -1<<63 {
			// pending alternative: value still to be chosen under exclusions
			return m.concretiseFresh(s, d.Excl, exclTerm, toI)
		}
		p.Taken = append(p.Taken, d)
		p.addPC(c.Eq(s.T, c.BVC(w, uint64(d.V))))
		return d.V
	}
	m.checkDepth()
	return m.concretiseFresh(s, nil, exclTerm, toI)
}

func (m *Machine) concretiseFresh(s *Sym, excl []int64, exclTerm func([]int64) *smt.Term, toI func(uint64) int64) int64 {
	p := m.path
	c := m.ctx
	w := kindWidth(s.K)
	if m.cfg.ConcretiseCap > 0 && len(excl) >= m.cfg.ConcretiseCap {
		panic(abortPath{"budget", fmt.Sprintf("concretisation fan-out exceeds cap %d", m.cfg.ConcretiseCap)})
	}
	r, mod := m.sat(exclTerm(excl), true, false)
	if r == smt.Unsat {
		panic(abortPath{"assume", "no further value"})
	}
	if r != smt.Sat || mod == nil {
		panic(abortPath{"unknown", "solver could not produce a value to concretise"})
	}
	bits := c.Eval(s.T, m.fillModel(mod, s.T), map[*smt.Term]uint64{})
	v := toI(bits)
	// is there another value?
	ex2 := append(append([]int64{}, excl...), v)
	r2, _ := m.sat(exclTerm(ex2), false, false)
	if r2 != smt.Unsat {
		if r2 == smt.Unknown {
			p.Tainted = true
		}
		alt := append(append([]Decision{}, p.Taken...), Decision{Kind: 'c', V: -1 << 63, Excl: ex2})
		p.Forks = append(p.Forks, alt)
	}
	p.Taken = append(p.Taken, Decision{Kind: 'c', V: v})
	p.addPC(c.Eq(s.T, c.BVC(w, uint64(v))))
	return v
}

// fillModel adds zero for variables of t missing from the model.
func (m *Machine) fillModel(mod smt.Model, ts ...*smt.Term) smt.Model {
	vs := map[*smt.Term]bool{}
	seen := map[*smt.Term]bool{}
	for _, t := range ts {
		smt.VarsOf(t, vs, seen)
	}
	out := smt.Model{}
	for k, v := range mod {
		out[k] = v
	}
	for v := range vs {
		if _, ok := out[v.Name]; !ok {
			out[v.Name] = 0
		}
	}
	return out
}

// Choose forks over n alternatives (always all of them).
func (m *Machine) Choose(n int) int {
	if m.merge != nil {
		panic(mergeAbort{"choose inside merged callee"})
	}
	p := m.path
	if n <= 1 {
		return 0
	}
	if p.pos < len(p.Prefix) {
		d := p.Prefix[p.pos]
		p.pos++
		if d.Kind != 'n' {
			panic(abortPath{"engine", "non-deterministic replay: expected choose decision"})
		}
		p.Taken = append(p.Taken, d)
		return int(d.V)
	}
	m.checkDepth()
	for i := n - 1; i >= 1; i-- {
		alt := append(append([]Decision{}, p.Taken...), Decision{Kind: 'n', V: int64(i)})
		p.Forks = append(p.Forks, alt)
	}
	p.Taken = append(p.Taken, Decision{Kind: 'n', V: 0})
	return 0
}

// Assume restricts the path to cond.
func (m *Machine) Assume(cond *smt.Term) {
	if cond.IsTrue() {
		return
	}
	if cond.IsFalse() {
		panic(abortPath{"assume", "assumption false"})
	}
	p := m.path
	if p.pcSet[cond] {
		return
	}
	if p.pos < len(p.Prefix) {
		// replay: feasibility was established when the prefix was created
		d := p.Prefix[p.pos]
		if d.Kind == 'b' && d.B {
			p.pos++
			p.Taken = append(p.Taken, d)
			p.addPC(cond)
			return
		}
		panic(abortPath{"engine", "non-deterministic replay at Assume"})
	}
	r, _ := m.sat(cond, false, false)
	if r == smt.Unsat {
		panic(abortPath{"assume", "assumption infeasible"})
	}
	if r == smt.Unknown {
		p.Tainted = true
	}
	p.Taken = append(p.Taken, Decision{Kind: 'b', B: true})
	p.addPC(cond)
}

// Axiom adds a fact that holds by construction (definitional constraints of
// fresh variables): never makes a satisfiable path condition unsatisfiable.
func (m *Machine) Axiom(t *smt.Term) { m.path.addPC(t) }

// impliedSyntactically: cond is a conjunct of the path condition, or a conjunction /
// negated disjunction whose parts all are.
func (m *Machine) impliedSyntactically(cond *smt.Term) bool {
	p := m.path
	if cond.IsTrue() || p.pcSet[cond] {
		return true
	}
	switch cond.Op {
	case smt.OAnd:
		return m.impliedSyntactically(cond.Args[0]) && m.impliedSyntactically(cond.Args[1])
	case smt.ONot:
		if in := cond.Args[0]; in.Op == smt.OOr {
			return m.impliedSyntactically(m.ctx.Not(in.Args[0])) && m.impliedSyntactically(m.ctx.Not(in.Args[1]))
		}
	case smt.OOr:
		return m.impliedSyntactically(cond.Args[0]) || m.impliedSyntactically(cond.Args[1])
	}
	return false
}

// Assert checks a verification condition.
func (m *Machine) Assert(cond *smt.Term, label, pos string) {
	p := m.path
	p.VCs++
	if cond.IsTrue() || m.impliedSyntactically(cond) {
		// trivially true, or literally a conjunct of the path condition
		p.VCsUnsat++
		p.Events = append(p.Events, Event{Kind: "assert-ok", Label: label, Pos: pos})
		return
	}
	neg := m.ctx.Not(cond)
	r, mod := m.sat(neg, true, true)
	switch r {
	case smt.Unsat:
		p.VCsUnsat++
		p.Events = append(p.Events, Event{Kind: "assert-ok", Label: label, Pos: pos})
		p.addPC(cond)
		return
	case smt.Unknown:
		p.Events = append(p.Events, Event{Kind: "assert-unknown", Label: label, Pos: pos, Msg: m.solver.LastError})
		p.addPC(cond)
		return
	}
	// violated: classify against known-finding regions
	ev := Event{Kind: "assert-fail", Label: label, Pos: pos, Model: mod}
	if len(p.Known) > 0 {
		c := m.ctx
		outside := neg
		var ids []string
		for _, k := range p.Known {
			outside = c.And(outside, c.Not(k.cond))
			if rr, _ := m.sat(c.And(neg, k.cond), false, true); rr == smt.Sat {
				ids = append(ids, k.id)
			}
		}
		ro, mo := m.sat(outside, true, true)
		switch ro {
		case smt.Unsat:
			sort.Strings(ids)
			ev.Kind = "known"
			ev.Known = ids
		case smt.Sat:
			ev.Model = mo
			ev.Msg = "outside known regions"
		default:
			ev.Kind = "assert-unknown"
			ev.Msg = "known-region query unknown"
		}
	}
	p.Events = append(p.Events, ev)
	// continue under the assumption that the claim holds, if possible
	if rr, _ := m.sat(cond, false, false); rr == smt.Unsat {
		// the assertion fails on every input of this path: it has been recorded; keep
		// executing (later assertions of the harness are still checked)
		return
	}
	p.addPC(cond)
}

// Reach records a vacuity witness with a model of the current path condition.
func (m *Machine) Reach(label string) {
	p := m.path
	if p.Tainted {
		r, _ := m.sat(m.ctx.True(), false, true)
		if r != smt.Sat {
			return
		}
	}
	p.Events = append(p.Events, Event{Kind: "reach", Label: label})
}

// ModelOfPath returns a model of the full path condition.
func (m *Machine) ModelOfPath() (smt.Result, smt.Model) {
	if len(m.path.PC) == 0 {
		return smt.Sat, smt.Model{}
	}
	m.path.Queries++
	return m.solver.Check(m.ctx, m.path.PC, true, m.cfg.SolverTimeout)
}
