package symx

import (
	"fmt"
	"go/token"
	"go/types"
	"math"

	"golang.org/x/tools/go/ssa"

	"gosmt/smt"
)

// ---- kinds ----

func kindWidth(k types.BasicKind) int {
	switch k {
	case types.Int8, types.Uint8:
		return 8
	case types.Int16, types.Uint16:
		return 16
	case types.Int32, types.Uint32, types.Float32:
		return 32
	case types.Int, types.Int64, types.Uint, types.Uint64, types.Uintptr, types.Float64:
		return 64
	}
	panic(fmt.Sprintf("kindWidth: %v", k))
}

func kindSigned(k types.BasicKind) bool {
	switch k {
	case types.Int, types.Int8, types.Int16, types.Int32, types.Int64:
		return true
	}
	return false
}

func kindIsFloat(k types.BasicKind) bool { return k == types.Float32 || k == types.Float64 }
func kindIsInt(k types.BasicKind) bool {
	switch k {
	case types.Int, types.Int8, types.Int16, types.Int32, types.Int64,
		types.Uint, types.Uint8, types.Uint16, types.Uint32, types.Uint64, types.Uintptr:
		return true
	}
	return false
}

// kindOf returns the basic kind of a concrete scalar value, or Invalid.
func kindOf(v value) types.BasicKind {
	switch v := v.(type) {
	case bool:
		return types.Bool
	case int:
		return types.Int
	case int8:
		return types.Int8
	case int16:
		return types.Int16
	case int32:
		return types.Int32
	case int64:
		return types.Int64
	case uint:
		return types.Uint
	case uint8:
		return types.Uint8
	case uint16:
		return types.Uint16
	case uint32:
		return types.Uint32
	case uint64:
		return types.Uint64
	case uintptr:
		return types.Uintptr
	case float32:
		return types.Float32
	case float64:
		return types.Float64
	case *Sym:
		return v.K
	}
	return types.Invalid
}

func basicKindOfType(t types.Type) types.BasicKind {
	if b, ok := t.Underlying().(*types.Basic); ok {
		k := b.Kind()
		switch k {
		case types.UntypedBool:
			return types.Bool
		case types.UntypedInt:
			return types.Int
		case types.UntypedRune:
			return types.Int32
		case types.UntypedFloat:
			return types.Float64
		}
		return k
	}
	return types.Invalid
}

func isSym(v value) bool {
	_, ok := v.(*Sym)
	return ok
}

// bitsOf returns the bit pattern of a concrete scalar.
func bitsOf(v value) uint64 {
	switch v := v.(type) {
	case bool:
		if v {
			return 1
		}
		return 0
	case int:
		return uint64(v)
	case int8:
		return uint64(uint8(v))
	case int16:
		return uint64(uint16(v))
	case int32:
		return uint64(uint32(v))
	case int64:
		return uint64(v)
	case uint:
		return uint64(v)
	case uint8:
		return uint64(v)
	case uint16:
		return uint64(v)
	case uint32:
		return uint64(v)
	case uint64:
		return v
	case uintptr:
		return uint64(v)
	case float32:
		return uint64(math.Float32bits(v))
	case float64:
		return math.Float64bits(v)
	}
	panic(fmt.Sprintf("bitsOf: %T", v))
}

// fromBits builds a concrete Go value of kind k.
func fromBits(k types.BasicKind, b uint64) value {
	switch k {
	case types.Bool:
		return b != 0
	case types.Int:
		return int(b)
	case types.Int8:
		return int8(b)
	case types.Int16:
		return int16(b)
	case types.Int32:
		return int32(b)
	case types.Int64:
		return int64(b)
	case types.Uint:
		return uint(b)
	case types.Uint8:
		return uint8(b)
	case types.Uint16:
		return uint16(b)
	case types.Uint32:
		return uint32(b)
	case types.Uint64:
		return b
	case types.Uintptr:
		return uintptr(b)
	case types.Float32:
		return math.Float32frombits(uint32(b))
	case types.Float64:
		return math.Float64frombits(b)
	}
	panic(fmt.Sprintf("fromBits: kind %v", k))
}

func (m *Machine) termOf(v value) *smt.Term {
	switch v := v.(type) {
	case *Sym:
		return v.T
	case bool:
		return m.ctx.BoolC(v)
	case float32:
		return m.ctx.FPC(32, uint64(math.Float32bits(v)))
	case float64:
		return m.ctx.FPC(64, math.Float64bits(v))
	}
	k := kindOf(v)
	if k == types.Invalid {
		panic(unmodelled(fmt.Sprintf("termOf(%T)", v)))
	}
	return m.ctx.BVC(kindWidth(k), bitsOf(v))
}

// fromTerm wraps a term as a value of kind k, concretising constants.
func (m *Machine) fromTerm(t *smt.Term, k types.BasicKind) value {
	if t.IsConst() {
		return fromBits(k, t.C)
	}
	return &Sym{T: t, K: k}
}

// truth forces a (possibly symbolic) boolean to a concrete one by forking.
func (m *Machine) truth(v value) bool {
	switch v := v.(type) {
	case bool:
		return v
	case *Sym:
		return m.Decide(v.T)
	}
	panic(fmt.Sprintf("truth: %T", v))
}

// concInt forces a (possibly symbolic) integer to a concrete int64.
func (m *Machine) concInt(v value) int64 {
	if s, ok := v.(*Sym); ok {
		return m.Concretise(s)
	}
	return asInt64(v)
}

// ---- operators ----

func (m *Machine) binop(op token.Token, t types.Type, x, y value) value {
	switch x.(type) {
	case *Sym, sstr, ostr:
		return m.symBinop(op, t, x, y)
	}
	switch y.(type) {
	case *Sym, sstr, ostr:
		return m.symBinop(op, t, x, y)
	}
	if op == token.EQL {
		return m.eqnil(t, x, y)
	}
	if op == token.NEQ {
		return m.not(m.eqnil(t, x, y))
	}
	return binopConcrete(op, t, x, y)
}

func (m *Machine) not(v value) value {
	switch v := v.(type) {
	case bool:
		return !v
	case *Sym:
		return m.fromTerm(m.ctx.Not(v.T), types.Bool)
	}
	panic("not: bad operand")
}

func (m *Machine) symBinop(op token.Token, t types.Type, x, y value) value {
	c := m.ctx
	// strings
	switch x.(type) {
	case string, sstr, ostr:
		return m.strBinop(op, x, y)
	}
	if op == token.EQL {
		return m.equals(t, x, y)
	}
	if op == token.NEQ {
		return m.not(m.equals(t, x, y))
	}
	k := kindOf(x)
	if k == types.Invalid {
		panic(unmodelled(fmt.Sprintf("symbolic binop %s on %T", op, x)))
	}
	tx := m.termOf(x)
	if op == token.SHL || op == token.SHR {
		return m.symShift(op, k, tx, y)
	}
	ty := m.termOf(y)
	if k == types.Bool {
		panic(unmodelled("bool binop " + op.String()))
	}
	if kindIsFloat(k) {
		switch op {
		case token.ADD:
			return m.fromTerm(c.FAdd(tx, ty), k)
		case token.SUB:
			return m.fromTerm(c.FSub(tx, ty), k)
		case token.MUL:
			return m.fromTerm(c.FMul(tx, ty), k)
		case token.QUO:
			return m.fromTerm(c.FDiv(tx, ty), k)
		case token.LSS:
			return m.fromTerm(c.FLt(tx, ty), types.Bool)
		case token.LEQ:
			return m.fromTerm(c.FLe(tx, ty), types.Bool)
		case token.GTR:
			return m.fromTerm(c.FLt(ty, tx), types.Bool)
		case token.GEQ:
			return m.fromTerm(c.FLe(ty, tx), types.Bool)
		}
		panic(unmodelled("float binop " + op.String()))
	}
	signed := kindSigned(k)
	w := kindWidth(k)
	switch op {
	case token.ADD:
		return m.fromTerm(c.Add(tx, ty), k)
	case token.SUB:
		return m.fromTerm(c.Sub(tx, ty), k)
	case token.MUL:
		return m.fromTerm(c.Mul(tx, ty), k)
	case token.QUO, token.REM:
		// division by zero panics in Go
		if m.Decide(c.Eq(ty, c.BVC(w, 0))) {
			panic(runtimeError("integer divide by zero"))
		}
		if op == token.QUO {
			if signed {
				return m.fromTerm(c.SDiv(tx, ty), k)
			}
			return m.fromTerm(c.UDiv(tx, ty), k)
		}
		if signed {
			return m.fromTerm(c.SRem(tx, ty), k)
		}
		return m.fromTerm(c.URem(tx, ty), k)
	case token.AND:
		return m.fromTerm(c.BAnd(tx, ty), k)
	case token.OR:
		return m.fromTerm(c.BOr(tx, ty), k)
	case token.XOR:
		return m.fromTerm(c.BXor(tx, ty), k)
	case token.AND_NOT:
		return m.fromTerm(c.BAnd(tx, c.BNot(ty)), k)
	case token.LSS:
		if signed {
			return m.fromTerm(c.SLt(tx, ty), types.Bool)
		}
		return m.fromTerm(c.ULt(tx, ty), types.Bool)
	case token.LEQ:
		if signed {
			return m.fromTerm(c.SLe(tx, ty), types.Bool)
		}
		return m.fromTerm(c.ULe(tx, ty), types.Bool)
	case token.GTR:
		if signed {
			return m.fromTerm(c.SLt(ty, tx), types.Bool)
		}
		return m.fromTerm(c.ULt(ty, tx), types.Bool)
	case token.GEQ:
		if signed {
			return m.fromTerm(c.SLe(ty, tx), types.Bool)
		}
		return m.fromTerm(c.ULe(ty, tx), types.Bool)
	}
	panic(unmodelled("symbolic binop " + op.String()))
}

func (m *Machine) symShift(op token.Token, k types.BasicKind, tx *smt.Term, y value) value {
	c := m.ctx
	w := kindWidth(k)
	ky := kindOf(y)
	ty := m.termOf(y)
	wy := kindWidth(ky)
	if kindSigned(ky) {
		if m.Decide(c.SLt(ty, c.BVC(wy, 0))) {
			panic(runtimeError("negative shift amount"))
		}
	}
	// count as width-w vector, saturating
	var cnt *smt.Term
	var big *smt.Term // count >= w
	if wy > w {
		big = c.Not(c.ULt(ty, c.BVC(wy, uint64(w))))
		cnt = c.Extract(ty, w-1, 0)
	} else {
		cnt = c.ZExt(ty, w-wy)
		big = c.Not(c.ULt(cnt, c.BVC(w, uint64(w))))
	}
	var r *smt.Term
	switch {
	case op == token.SHL:
		r = c.Ite(big, c.BVC(w, 0), c.Shl(tx, cnt))
	case kindSigned(k):
		r = c.Ite(big, c.AShr(tx, c.BVC(w, uint64(w-1))), c.AShr(tx, cnt))
	default:
		r = c.Ite(big, c.BVC(w, 0), c.LShr(tx, cnt))
	}
	return m.fromTerm(r, k)
}

func (m *Machine) unop(instr *ssa.UnOp, x value) value {
	if s, ok := x.(*Sym); ok {
		c := m.ctx
		switch instr.Op {
		case token.SUB:
			if kindIsFloat(s.K) {
				return m.fromTerm(c.FNeg(s.T), s.K)
			}
			return m.fromTerm(c.Neg(s.T), s.K)
		case token.NOT:
			return m.fromTerm(c.Not(s.T), types.Bool)
		case token.XOR:
			return m.fromTerm(c.BNot(s.T), s.K)
		}
		panic(unmodelled("symbolic unop " + instr.Op.String()))
	}
	return unopConcrete(instr, x)
}

// conv with symbolic operands.
func (m *Machine) conv(t_dst, t_src types.Type, x value) value {
	switch xv := x.(type) {
	case *Sym:
		kd := basicKindOfType(t_dst)
		c := m.ctx
		if kd == types.String {
			panic(unmodelled("string(symbolic integer)"))
		}
		if kd == types.Invalid || kd == types.UnsafePointer {
			panic(unmodelled(fmt.Sprintf("conversion of symbolic value to %s", t_dst)))
		}
		ks := xv.K
		switch {
		case kindIsInt(ks) && kindIsInt(kd):
			return m.fromTerm(c.Resize(xv.T, kindWidth(kd), kindSigned(ks)), kd)
		case kindIsInt(ks) && kindIsFloat(kd):
			return m.fromTerm(c.FFromInt(xv.T, kindSigned(ks), kindWidth(kd)), kd)
		case kindIsFloat(ks) && kindIsInt(kd):
			return m.fromTerm(c.FToInt(xv.T, kindSigned(kd), kindWidth(kd)), kd)
		case kindIsFloat(ks) && kindIsFloat(kd):
			return m.fromTerm(c.FToFP(xv.T, kindWidth(kd)), kd)
		case ks == types.Bool && kd == types.Bool:
			return x
		}
		panic(unmodelled(fmt.Sprintf("symbolic conversion %s -> %s", t_src, t_dst)))
	case sstr:
		switch ud := t_dst.Underlying().(type) {
		case *types.Basic:
			if ud.Kind() == types.String {
				return x
			}
		case *types.Slice:
			if b, ok := ud.Elem().Underlying().(*types.Basic); ok && b.Kind() == types.Byte {
				res := make([]value, len(xv.b))
				copy(res, xv.b)
				return res
			}
		}
		panic(unmodelled(fmt.Sprintf("conversion of symbolic string to %s", t_dst)))
	case ostr:
		if b, ok := t_dst.Underlying().(*types.Basic); ok && b.Kind() == types.String {
			return x
		}
		panic(unmodelled(fmt.Sprintf("conversion of opaque string to %s", t_dst)))
	case []value:
		// []byte -> string with symbolic bytes
		if b, ok := t_dst.Underlying().(*types.Basic); ok && b.Kind() == types.String {
			if sl, ok := t_src.Underlying().(*types.Slice); ok {
				if eb, ok := sl.Elem().Underlying().(*types.Basic); ok && eb.Kind() == types.Byte {
					symbolic := false
					for _, e := range xv {
						if isSym(e) {
							symbolic = true
							break
						}
					}
					if symbolic {
						res := make([]value, len(xv))
						copy(res, xv)
						return sstr{res}
					}
				}
			}
		}
	}
	return convConcrete(t_dst, t_src, x)
}

// ---- equality ----

func (m *Machine) boolTerm(v value) *smt.Term {
	switch v := v.(type) {
	case bool:
		return m.ctx.BoolC(v)
	case *Sym:
		return v.T
	}
	panic("boolTerm")
}

func (m *Machine) andv(a, b value) value {
	if ab, ok := a.(bool); ok {
		if !ab {
			return false
		}
		return b
	}
	if bb, ok := b.(bool); ok {
		if !bb {
			return false
		}
		return a
	}
	return m.fromTerm(m.ctx.And(m.boolTerm(a), m.boolTerm(b)), types.Bool)
}

// eqConcrete: equality known to be concrete.
func (m *Machine) eqConcrete(t types.Type, x, y value) bool {
	return m.equals(t, x, y).(bool)
}

// equals returns x == y (bool or *Sym) for Go's equivalence relation on type t.
func (m *Machine) equals(t types.Type, x, y value) value {
	c := m.ctx
	switch x := x.(type) {
	case *Sym:
		return m.scalarEq(x, y)
	case sstr, ostr:
		return m.strEq(x, y)
	case bool:
		if ys, ok := y.(*Sym); ok {
			return m.scalarEq(ys, x)
		}
		return x == y.(bool)
	case string:
		switch y.(type) {
		case sstr, ostr:
			return m.strEq(x, y)
		}
		return x == y.(string)
	case float32:
		if ys, ok := y.(*Sym); ok {
			return m.scalarEq(ys, x)
		}
		return x == y.(float32)
	case float64:
		if ys, ok := y.(*Sym); ok {
			return m.scalarEq(ys, x)
		}
		return x == y.(float64)
	case complex64:
		return x == y.(complex64)
	case complex128:
		return x == y.(complex128)
	case *value:
		return x == y.(*value)
	case chan value:
		return x == y.(chan value)
	case *native:
		return x == y.(*native)
	case structure:
		yv := y.(structure)
		var tStruct *types.Struct
		if t != nil {
			tStruct, _ = t.Underlying().(*types.Struct)
		}
		var res value = true
		for i := range x {
			var ft types.Type
			if tStruct != nil {
				f := tStruct.Field(i)
				if f.Name() == "_" {
					continue
				}
				ft = f.Type()
			}
			res = m.andv(res, m.equals(ft, x[i], yv[i]))
			if b, ok := res.(bool); ok && !b {
				return false
			}
		}
		return res
	case array:
		yv := y.(array)
		var et types.Type
		if t != nil {
			if ta, ok := t.Underlying().(*types.Array); ok {
				et = ta.Elem()
			}
		}
		var res value = true
		for i := range x {
			res = m.andv(res, m.equals(et, x[i], yv[i]))
			if b, ok := res.(bool); ok && !b {
				return false
			}
		}
		return res
	case iface:
		yv := y.(iface)
		if !sameType(x.t, yv.t) {
			return false
		}
		if x.t == nil {
			return true
		}
		switch x.t.Underlying().(type) {
		case *types.Map, *types.Signature, *types.Slice:
			panic(runtimeError("comparing uncomparable type " + x.t.String()))
		}
		return m.equals(x.t, x.v, yv.v)
	}
	if k := kindOf(x); k != types.Invalid {
		if ys, ok := y.(*Sym); ok {
			return m.scalarEq(ys, x)
		}
		return bitsOf(x) == bitsOf(y)
	}
	_ = c
	panic(runtimeError(fmt.Sprintf("comparing uncomparable type %v (%T)", t, x)))
}

func (m *Machine) scalarEq(x *Sym, y value) value {
	c := m.ctx
	ty := m.termOf(y)
	if kindIsFloat(x.K) {
		return m.fromTerm(c.FEq(x.T, ty), types.Bool)
	}
	return m.fromTerm(c.Eq(x.T, ty), types.Bool)
}

// eqnil returns x == y for type t, where for reference types one side is nil.
func (m *Machine) eqnil(t types.Type, x, y value) value {
	switch t.Underlying().(type) {
	case *types.Map, *types.Signature, *types.Slice:
		return isNilRef(x) == isNilRef(y)
	}
	return m.equals(t, x, y)
}

func isNilRef(x value) bool {
	switch x := x.(type) {
	case *omap:
		return x == nil
	case *ssa.Function:
		return x == nil
	case *closure:
		return x == nil
	case *ssa.Builtin:
		return x == nil
	case []value:
		return x == nil
	}
	panic(fmt.Sprintf("eqnil: illegal dynamic type: %T", x))
}

// ---- strings ----

func strBytes(v value) []value {
	switch v := v.(type) {
	case string:
		r := make([]value, len(v))
		for i := 0; i < len(v); i++ {
			r[i] = v[i]
		}
		return r
	case sstr:
		return v.b
	}
	panic(unmodelled(fmt.Sprintf("strBytes(%T)", v)))
}

func normStr(b []value) value {
	for _, e := range b {
		if isSym(e) {
			return sstr{b}
		}
	}
	bs := make([]byte, len(b))
	for i, e := range b {
		bs[i] = e.(uint8)
	}
	return string(bs)
}

func (m *Machine) ostrTerm(v value) *smt.Term {
	switch v := v.(type) {
	case ostr:
		return v.t
	case string:
		return m.ctx.StrLit(v)
	}
	panic(unmodelled("opaque string mixed with byte-level symbolic string"))
}

func (m *Machine) strEq(x, y value) value {
	_, xo := x.(ostr)
	_, yo := y.(ostr)
	if xo || yo {
		return m.fromTerm(m.ctx.Eq(m.ostrTerm(x), m.ostrTerm(y)), types.Bool)
	}
	xb, yb := strBytes(x), strBytes(y)
	if len(xb) != len(yb) {
		return false
	}
	var res value = true
	for i := range xb {
		res = m.andv(res, m.equals(nil, xb[i], yb[i]))
		if b, ok := res.(bool); ok && !b {
			return false
		}
	}
	return res
}

// strLess returns x < y (lexicographic, bytewise) as a value.
func (m *Machine) strLess(x, y value, orEqual bool) value {
	if _, ok := x.(ostr); ok {
		panic(unmodelled("ordering of opaque strings"))
	}
	if _, ok := y.(ostr); ok {
		panic(unmodelled("ordering of opaque strings"))
	}
	xb, yb := strBytes(x), strBytes(y)
	c := m.ctx
	n := len(xb)
	if len(yb) < n {
		n = len(yb)
	}
	// tail: all common bytes equal -> compare lengths
	var tail *smt.Term
	if orEqual {
		tail = c.BoolC(len(xb) <= len(yb))
	} else {
		tail = c.BoolC(len(xb) < len(yb))
	}
	res := tail
	for i := n - 1; i >= 0; i-- {
		a, b := m.termOf(xb[i]), m.termOf(yb[i])
		res = c.Ite(c.Eq(a, b), res, c.ULt(a, b))
	}
	return m.fromTerm(res, types.Bool)
}

func (m *Machine) strBinop(op token.Token, x, y value) value {
	switch op {
	case token.ADD:
		_, xo := x.(ostr)
		_, yo := y.(ostr)
		if xo || yo {
			panic(unmodelled("concatenation of opaque strings"))
		}
		xb, yb := strBytes(x), strBytes(y)
		r := make([]value, 0, len(xb)+len(yb))
		r = append(r, xb...)
		r = append(r, yb...)
		return normStr(r)
	case token.EQL:
		return m.strEq(x, y)
	case token.NEQ:
		return m.not(m.strEq(x, y))
	case token.LSS:
		return m.strLess(x, y, false)
	case token.LEQ:
		return m.strLess(x, y, true)
	case token.GTR:
		return m.strLess(y, x, false)
	case token.GEQ:
		return m.strLess(y, x, true)
	}
	panic(unmodelled("string op " + op.String()))
}
