// Derived from golang.org/x/tools/go/ssa/interp (BSD licence, see LICENSE.xtools).
//
// Package symx is a symbolic executor for go/ssa: the x/tools SSA interpreter
// extended with symbolic scalars over a concrete heap. Control flow that depends
// on symbolic data is decided through (*Machine).Decide, which follows a
// decision prefix or asks an SMT solver and records untaken feasible sides.
package symx

import (
	"fmt"
	"go/token"
	"go/types"
	"reflect"
	"runtime"
	"slices"
	"strings"
	"sync"
	"time"

	"golang.org/x/tools/go/ssa"

	"gosmt/smt"
)

type continuation int

const (
	kNext continuation = iota
	kReturn
	kJump
)

// abortPath is an engine-level unwinding that target code cannot recover.
type abortPath struct {
	Kind string // unmodelled | budget | assume | crash | done
	Msg  string
}

func (a abortPath) Error() string { return a.Kind + ": " + a.Msg }

func unmodelled(msg string) abortPath { return abortPath{"unmodelled", msg} }

// runtimeError is a target-level Go run-time panic raised by the engine.
type runtimeError string

func (e runtimeError) Error() string { return "runtime error: " + string(e) }
func (e runtimeError) RuntimeError() {}

// Config controls one Machine.
type Config struct {
	InitPkgs      map[string]bool   // import paths whose package initialisers are executed
	DenyPkgs      []string          // import path prefixes never interpreted from source
	Stubs         map[string]string // function name -> replacement function name (both as ssa.Function.String())
	MaxSteps      int64
	MaxDecisions  int
	ConcretiseCap int
	SolverTimeout time.Duration
	Trace         bool
	OpenKnown     map[string]bool // ids of open known findings (regions honoured by zzvf.Known)
	Merge         map[string]bool // pure leaf functions whose paths are merged into ite terms
	Thorough      bool
}

type Intrinsic func(m *Machine, fr *frame, fn *ssa.Function, args []value) value

// Machine holds the state of one symbolic execution (one path at a time).
type Machine struct {
	prog               *ssa.Program
	globals            map[*ssa.Global]*value
	runtimeErrorString types.Type
	sizes              types.Sizes
	ctx                *smt.Ctx
	cfg                *Config
	solver             *smt.Solver
	path               *Path
	steps              int64
	stubFns            map[*ssa.Function]*ssa.Function
	funcByName         map[string]*ssa.Function
	Covered            map[*ssa.Function]int // functions executed from source -> calls
	IntrinsicsHit      map[string]int
	clock              clockState
	uuidCounter        uint64
	initDone           map[*ssa.Package]bool
	models             []smt.Model // recent models, for cheap feasibility answers
	nativeState        map[string]any
	varCache           map[*smt.Term]map[*smt.Term]bool
	merge              *mergeState
	lastCallPos        token.Pos
	methCache          map[methKey]*ssa.Function
	WantModel          bool // compute a model of the complete path condition at the end of the path
}

type deferred struct {
	fn    value
	args  []value
	instr *ssa.Defer
	tail  *deferred
}

type frame struct {
	m                *Machine
	caller           *frame
	fn               *ssa.Function
	block, prevBlock *ssa.BasicBlock
	env              []value // dynamic values of SSA variables, indexed by info.idx
	info             *fnInfo
	locals           []value
	defers           *deferred
	result           value
	panicking        bool
	panic            any
	phitemps         []value // temporaries for parallel phi assignment
}

func NewMachine(prog *ssa.Program, cfg *Config, ctx *smt.Ctx, solver *smt.Solver) *Machine {
	m := &Machine{
		prog:          prog,
		sizes:         types.SizesFor("gc", "amd64"),
		ctx:           ctx,
		cfg:           cfg,
		solver:        solver,
		Covered:       map[*ssa.Function]int{},
		IntrinsicsHit: map[string]int{},
		funcByName:    map[string]*ssa.Function{},
	}
	if rt := prog.ImportedPackage("runtime"); rt != nil {
		m.runtimeErrorString = rt.Type("errorString").Object().Type()
	}
	return m
}

func (m *Machine) Ctx() *smt.Ctx { return m.ctx }

// FuncNamed finds a package-level function or method by its ssa String() name.
func (m *Machine) FuncNamed(name string) *ssa.Function {
	if f, ok := m.funcByName[name]; ok {
		return f
	}
	var found *ssa.Function
	for _, pkg := range m.prog.AllPackages() {
		for _, mem := range pkg.Members {
			switch mem := mem.(type) {
			case *ssa.Function:
				if mem.String() == name {
					found = mem
				}
			case *ssa.Type:
				for _, T := range []types.Type{mem.Type(), types.NewPointer(mem.Type())} {
					ms := m.prog.MethodSets.MethodSet(T)
					for i := 0; i < ms.Len(); i++ {
						if f := m.prog.MethodValue(ms.At(i)); f != nil && f.String() == name {
							found = f
						}
					}
				}
			}
		}
	}
	m.funcByName[name] = found
	return found
}

// resetGlobals forgets all global state; cells are allocated lazily on first use.
func (m *Machine) resetGlobals() {
	m.globals = make(map[*ssa.Global]*value)
	m.initDone = map[*ssa.Package]bool{}
}

func (m *Machine) globalCell(g *ssa.Global) *value {
	if r, ok := m.globals[g]; ok {
		return r
	}
	cell := zero(mustDeref(g.Type()))
	m.globals[g] = &cell
	return &cell
}

func mustDeref(t types.Type) types.Type {
	if p, ok := t.Underlying().(*types.Pointer); ok {
		return p.Elem()
	}
	panic(fmt.Sprintf("mustDeref(%s)", t))
}

func (fr *frame) get(key ssa.Value) value {
	switch key := key.(type) {
	case nil:
		return nil
	case *ssa.Function, *ssa.Builtin:
		return key
	case *ssa.Const:
		return constValue(key)
	case *ssa.Global:
		return fr.m.globalCell(key)
	}
	if i, ok := fr.info.idx[key]; ok {
		return fr.env[i]
	}
	panic(fmt.Sprintf("get: no value for %T: %v", key, key.Name()))
}

func isAbort(p any) bool {
	_, ok := p.(abortPath)
	return ok
}

// runDefer runs a deferred call d.
// It always returns normally, but may set or clear fr.panic.
func (fr *frame) runDefer(d *deferred) {
	var ok bool
	defer func() {
		if !ok {
			p := recover()
			if isAbort(p) {
				panic(p)
			}
			// Deferred call created a new state of panic.
			fr.panicking = true
			fr.panic = p
		}
	}()
	fr.m.call(fr, d.instr.Pos(), d.fn, d.args)
	ok = true
}

func (fr *frame) runDefers() {
	for d := fr.defers; d != nil; d = d.tail {
		fr.runDefer(d)
	}
	fr.defers = nil
	if fr.panicking {
		panic(fr.panic) // new panic, or still panicking
	}
}

// fnInfo numbers the SSA values of one function so that a frame's environment is a slice.
type fnInfo struct {
	idx map[ssa.Value]int
	n   int
}

var fnInfoCache sync.Map // *ssa.Function -> *fnInfo

func infoOf(fn *ssa.Function) *fnInfo {
	if v, ok := fnInfoCache.Load(fn); ok {
		return v.(*fnInfo)
	}
	fi := &fnInfo{idx: map[ssa.Value]int{}}
	add := func(v ssa.Value) {
		if _, ok := fi.idx[v]; !ok {
			fi.idx[v] = fi.n
			fi.n++
		}
	}
	for _, p := range fn.Params {
		add(p)
	}
	for _, fv := range fn.FreeVars {
		add(fv)
	}
	for _, l := range fn.Locals {
		add(l)
	}
	for _, b := range fn.Blocks {
		for _, in := range b.Instrs {
			if v, ok := in.(ssa.Value); ok {
				add(v)
			}
		}
	}
	if fn.Recover != nil {
		for _, in := range fn.Recover.Instrs {
			if v, ok := in.(ssa.Value); ok {
				add(v)
			}
		}
	}
	actual, _ := fnInfoCache.LoadOrStore(fn, fi)
	return actual.(*fnInfo)
}

func (fr *frame) ix(v ssa.Value) int { return fr.info.idx[v] }

type methKey struct {
	t types.Type
	m *types.Func
}

// lookupMethod caches per machine: ssa.Program.LookupMethod takes a program-wide lock,
// which serialises the workers.
func (m *Machine) lookupMethod(typ types.Type, meth *types.Func) *ssa.Function {
	k := methKey{typ, meth}
	if f, ok := m.methCache[k]; ok {
		return f
	}
	f := m.prog.LookupMethod(typ, meth.Pkg(), meth.Name())
	if m.methCache == nil {
		m.methCache = map[methKey]*ssa.Function{}
	}
	m.methCache[k] = f
	return f
}

func (m *Machine) step() {
	m.steps++
	if m.cfg.MaxSteps > 0 && m.steps > m.cfg.MaxSteps {
		panic(abortPath{"budget", fmt.Sprintf("instruction budget %d exceeded", m.cfg.MaxSteps)})
	}
}

func (m *Machine) indexCheck(idx value, n int) int {
	if s, ok := idx.(*Sym); ok {
		c := m.ctx
		w := kindWidth(s.K)
		var in *smt.Term
		if kindSigned(s.K) {
			in = c.And(c.SLe(c.BVC(w, 0), s.T), c.SLt(s.T, c.BVC(w, uint64(n))))
		} else {
			in = c.ULt(s.T, c.BVC(w, uint64(n)))
		}
		if !m.Decide(in) {
			panic(runtimeError(fmt.Sprintf("index out of range [symbolic] with length %d", n)))
		}
		return int(m.Concretise(s))
	}
	i := asInt64(idx)
	if i < 0 || i >= int64(n) {
		panic(runtimeError(fmt.Sprintf("index out of range [%d] with length %d", i, n)))
	}
	return int(i)
}

// visitInstr interprets a single ssa.Instruction within the activation
// record frame.  It returns a continuation value indicating where to
// read the next instruction from.
func visitInstr(fr *frame, instr ssa.Instruction) continuation {
	m := fr.m
	m.step()
	switch instr := instr.(type) {
	case *ssa.DebugRef:
		// no-op

	case *ssa.UnOp:
		if instr.Op == token.MUL {
			p := fr.get(instr.X).(*value)
			if p == nil {
				panic(runtimeError("invalid memory address or nil pointer dereference"))
			}
			fr.env[fr.ix(instr)] = load(mustDeref(instr.X.Type()), p)
		} else if instr.Op == token.ARROW {
			fr.env[fr.ix(instr)] = m.recv(instr, fr.get(instr.X))
		} else {
			fr.env[fr.ix(instr)] = m.unop(instr, fr.get(instr.X))
		}

	case *ssa.BinOp:
		fr.env[fr.ix(instr)] = m.binop(instr.Op, instr.X.Type(), fr.get(instr.X), fr.get(instr.Y))

	case *ssa.Call:
		fn, args := m.prepareCall(fr, &instr.Call)
		fr.env[fr.ix(instr)] = m.call(fr, instr.Pos(), fn, args)

	case *ssa.ChangeInterface:
		fr.env[fr.ix(instr)] = fr.get(instr.X)

	case *ssa.ChangeType:
		fr.env[fr.ix(instr)] = fr.get(instr.X) // (can't fail)

	case *ssa.Convert:
		fr.env[fr.ix(instr)] = m.conv(instr.Type(), instr.X.Type(), fr.get(instr.X))

	case *ssa.MultiConvert:
		fr.env[fr.ix(instr)] = m.conv(instr.Type(), instr.X.Type(), fr.get(instr.X))

	case *ssa.SliceToArrayPointer:
		fr.env[fr.ix(instr)] = sliceToArrayPointer(instr.Type(), instr.X.Type(), fr.get(instr.X))

	case *ssa.MakeInterface:
		fr.env[fr.ix(instr)] = iface{t: instr.X.Type(), v: fr.get(instr.X)}

	case *ssa.Extract:
		fr.env[fr.ix(instr)] = fr.get(instr.Tuple).(tuple)[instr.Index]

	case *ssa.Slice:
		fr.env[fr.ix(instr)] = m.slice(fr.get(instr.X), fr.get(instr.Low), fr.get(instr.High), fr.get(instr.Max))

	case *ssa.Return:
		switch len(instr.Results) {
		case 0:
		case 1:
			fr.result = fr.get(instr.Results[0])
		default:
			var res []value
			for _, r := range instr.Results {
				res = append(res, fr.get(r))
			}
			fr.result = tuple(res)
		}
		fr.block = nil
		return kReturn

	case *ssa.RunDefers:
		fr.runDefers()

	case *ssa.Panic:
		panic(targetPanic{fr.get(instr.X)})

	case *ssa.Send:
		ch := fr.get(instr.Chan).(chan value)
		select {
		case ch <- fr.get(instr.X):
		default:
			panic(unmodelled("channel send would block (single-threaded execution)"))
		}

	case *ssa.Store:
		p := fr.get(instr.Addr).(*value)
		if p == nil {
			panic(runtimeError("invalid memory address or nil pointer dereference"))
		}
		store(mustDeref(instr.Addr.Type()), p, fr.get(instr.Val))

	case *ssa.If:
		succ := 1
		if m.truth(fr.get(instr.Cond)) {
			succ = 0
		}
		fr.prevBlock, fr.block = fr.block, fr.block.Succs[succ]
		return kJump

	case *ssa.Jump:
		fr.prevBlock, fr.block = fr.block, fr.block.Succs[0]
		return kJump

	case *ssa.Defer:
		fn, args := m.prepareCall(fr, &instr.Call)
		defers := &fr.defers
		if into := fr.get(instr.DeferStack); into != nil {
			defers = into.(**deferred)
		}
		*defers = &deferred{
			fn:    fn,
			args:  args,
			instr: instr,
			tail:  *defers,
		}

	case *ssa.Go:
		fn, args := m.prepareCall(fr, &instr.Call)
		m.spawn(fr, instr, fn, args)

	case *ssa.MakeChan:
		n := asInt64(fr.get(instr.Size))
		if n < 16 {
			n = 16 // single-threaded execution: give unbuffered channels room
		}
		fr.env[fr.ix(instr)] = make(chan value, n)

	case *ssa.Alloc:
		var addr *value
		if instr.Heap {
			// new
			addr = new(value)
			fr.env[fr.ix(instr)] = addr
		} else {
			// local
			addr = fr.env[fr.ix(instr)].(*value)
		}
		*addr = zero(mustDeref(instr.Type()))

	case *ssa.MakeSlice:
		c := m.concInt(fr.get(instr.Cap))
		l := m.concInt(fr.get(instr.Len))
		if l < 0 || c < l || c > 1<<28 {
			panic(runtimeError("makeslice: len out of range"))
		}
		slice := make([]value, c)
		tElt := instr.Type().Underlying().(*types.Slice).Elem()
		for i := range slice {
			slice[i] = zero(tElt)
		}
		fr.env[fr.ix(instr)] = slice[:l]

	case *ssa.MakeMap:
		fr.env[fr.ix(instr)] = makeMap(instr.Type().Underlying().(*types.Map).Key())

	case *ssa.Range:
		fr.env[fr.ix(instr)] = m.rangeIter(fr.get(instr.X))

	case *ssa.Next:
		fr.env[fr.ix(instr)] = fr.get(instr.Iter).(iter).next()

	case *ssa.FieldAddr:
		p := fr.get(instr.X).(*value)
		if p == nil {
			panic(runtimeError("invalid memory address or nil pointer dereference"))
		}
		fr.env[fr.ix(instr)] = &(*p).(structure)[instr.Field]

	case *ssa.Field:
		fr.env[fr.ix(instr)] = fr.get(instr.X).(structure)[instr.Field]

	case *ssa.IndexAddr:
		x := fr.get(instr.X)
		idx := fr.get(instr.Index)
		switch x := x.(type) {
		case []value:
			fr.env[fr.ix(instr)] = &x[m.indexCheck(idx, len(x))]
		case *value: // *array
			if x == nil {
				panic(runtimeError("invalid memory address or nil pointer dereference"))
			}
			a := (*x).(array)
			fr.env[fr.ix(instr)] = &a[m.indexCheck(idx, len(a))]
		default:
			panic(fmt.Sprintf("unexpected x type in IndexAddr: %T", x))
		}

	case *ssa.Index:
		x := fr.get(instr.X)
		idx := fr.get(instr.Index)
		switch x := x.(type) {
		case array:
			fr.env[fr.ix(instr)] = copyVal(x[m.indexCheck(idx, len(x))])
		case string:
			fr.env[fr.ix(instr)] = x[m.indexCheck(idx, len(x))]
		case sstr:
			fr.env[fr.ix(instr)] = x.b[m.indexCheck(idx, len(x.b))]
		default:
			panic(fmt.Sprintf("unexpected x type in Index: %T", x))
		}

	case *ssa.Lookup:
		fr.env[fr.ix(instr)] = m.lookup(instr, fr.get(instr.X), fr.get(instr.Index))

	case *ssa.MapUpdate:
		mp := fr.get(instr.Map).(*omap)
		if mp == nil {
			panic(runtimeError("assignment to entry in nil map"))
		}
		mp.insert(m, fr.get(instr.Key), copyVal(fr.get(instr.Value)))

	case *ssa.TypeAssert:
		fr.env[fr.ix(instr)] = typeAssert(instr, fr.get(instr.X).(iface))

	case *ssa.MakeClosure:
		var bindings []value
		for _, binding := range instr.Bindings {
			bindings = append(bindings, fr.get(binding))
		}
		fr.env[fr.ix(instr)] = &closure{instr.Fn.(*ssa.Function), bindings}

	case *ssa.Phi:
		panic("unreachable") // phis are processed at block entry

	case *ssa.Select:
		fr.env[fr.ix(instr)] = m.selectInstr(fr, instr)

	default:
		panic(fmt.Sprintf("unexpected instruction: %T", instr))
	}
	return kNext
}

func (m *Machine) recv(instr *ssa.UnOp, x value) value {
	ch := x.(chan value)
	var v value
	var ok bool
	select {
	case v, ok = <-ch:
	default:
		panic(unmodelled("channel receive would block (single-threaded execution)"))
	}
	if !ok {
		v = zero(instr.X.Type().Underlying().(*types.Chan).Elem())
	}
	if instr.CommaOk {
		v = tuple{v, ok}
	}
	return v
}

func (m *Machine) selectInstr(fr *frame, instr *ssa.Select) value {
	var cases []reflect.SelectCase
	cases = append(cases, reflect.SelectCase{Dir: reflect.SelectDefault})
	for _, state := range instr.States {
		var dir reflect.SelectDir
		if state.Dir == types.RecvOnly {
			dir = reflect.SelectRecv
		} else {
			dir = reflect.SelectSend
		}
		var send reflect.Value
		if state.Send != nil {
			send = reflect.ValueOf(fr.get(state.Send))
		}
		cases = append(cases, reflect.SelectCase{
			Dir:  dir,
			Chan: reflect.ValueOf(fr.get(state.Chan)),
			Send: send,
		})
	}
	chosen, recv, recvOk := reflect.Select(cases)
	chosen-- // default case has index -1.
	if chosen == -1 && instr.Blocking {
		panic(unmodelled("blocking select with no ready case (single-threaded execution)"))
	}
	r := tuple{chosen, recvOk}
	for i, st := range instr.States {
		if st.Dir == types.RecvOnly {
			var v value
			if i == chosen && recvOk {
				v = recv.Interface().(value)
			} else {
				v = zero(st.Chan.Type().Underlying().(*types.Chan).Elem())
			}
			r = append(r, v)
		}
	}
	return r
}

// spawn handles a go statement: the goroutine body runs to completion at the
// spawn point (sequentialised), unless an intrinsic claims the callee.
func (m *Machine) spawn(fr *frame, instr *ssa.Go, fn value, args []value) {
	m.IntrinsicsHit["go-statement(sequentialised)"]++
	func() {
		defer func() {
			if p := recover(); p != nil {
				if isAbort(p) {
					panic(p)
				}
				panic(p) // a panicking goroutine kills the process
			}
		}()
		m.call(nil, instr.Pos(), fn, args)
	}()
}

func (m *Machine) slice(x, lo, hi, max value) value {
	var Len, Cap int
	switch x := x.(type) {
	case string:
		Len = len(x)
		Cap = Len
	case sstr:
		Len = len(x.b)
		Cap = Len
	case []value:
		Len = len(x)
		Cap = cap(x)
	case *value: // *array
		if x == nil {
			panic(runtimeError("invalid memory address or nil pointer dereference"))
		}
		a := (*x).(array)
		Len = len(a)
		Cap = cap(a)
	}
	c := m.ctx
	// symbolic bounds: check 0 <= lo <= hi <= max <= cap, then concretise
	anySym := isSym(lo) || isSym(hi) || isSym(max)
	if anySym {
		t := func(v value, def int) *smt.Term {
			if v == nil {
				return c.BVC(64, uint64(def))
			}
			k := kindOf(v)
			return c.Resize(m.termOf(v), 64, kindSigned(k))
		}
		tl := t(lo, 0)
		var th *smt.Term
		if hi == nil {
			th = c.BVC(64, uint64(Len))
		} else {
			th = t(hi, 0)
		}
		tm := t(max, Cap)
		ok := c.And(c.And(c.SLe(c.BVC(64, 0), tl), c.SLe(tl, th)), c.And(c.SLe(th, tm), c.SLe(tm, c.BVC(64, uint64(Cap)))))
		if !m.Decide(ok) {
			panic(runtimeError("slice bounds out of range [symbolic]"))
		}
	}
	l := int64(0)
	if lo != nil {
		l = m.concInt(lo)
	}
	h := int64(Len)
	if hi != nil {
		h = m.concInt(hi)
	}
	mx := int64(Cap)
	if max != nil {
		mx = m.concInt(max)
	}
	if l < 0 || l > h || h > mx || mx > int64(Cap) {
		panic(runtimeError(fmt.Sprintf("slice bounds out of range [%d:%d:%d] with capacity %d", l, h, mx, Cap)))
	}
	switch x := x.(type) {
	case string:
		return x[l:h]
	case sstr:
		return normStr(x.b[l:h:h])
	case []value:
		if x == nil {
			return x
		}
		return x[l:h:mx]
	case *value: // *array
		a := (*x).(array)
		return []value(a)[l:h:mx]
	}
	panic(fmt.Sprintf("slice: unexpected X type: %T", x))
}

// lookup returns x[idx] where x is a map or string.
func (m *Machine) lookup(instr *ssa.Lookup, x, idx value) value {
	switch x := x.(type) {
	case *omap:
		var v value
		e := x.find(m, idx)
		ok := e != nil
		if ok {
			v = copyVal(e.val)
		} else {
			v = zero(instr.X.Type().Underlying().(*types.Map).Elem())
		}
		if instr.CommaOk {
			v = tuple{v, ok}
		}
		return v
	case string:
		return x[m.indexCheck(idx, len(x))]
	case sstr:
		return x.b[m.indexCheck(idx, len(x.b))]
	}
	panic(fmt.Sprintf("unexpected x type in Lookup: %T", x))
}

type sstrIter struct {
	m *Machine
	s sstr
	i int
}

func (it *sstrIter) next() tuple {
	if it.i >= len(it.s.b) {
		return tuple{false, nil, nil}
	}
	b := it.s.b[it.i]
	i := it.i
	it.i++
	switch b := b.(type) {
	case uint8:
		if b >= 0x80 {
			panic(unmodelled("range over symbolic string with non-ASCII byte"))
		}
		return tuple{true, i, int32(b)}
	case *Sym:
		c := it.m.ctx
		if !it.m.Decide(c.ULt(b.T, c.BVC(8, 0x80))) {
			panic(unmodelled("range over symbolic string: non-ASCII byte"))
		}
		return tuple{true, i, it.m.fromTerm(c.ZExt(b.T, 24), types.Int32)}
	}
	panic("sstrIter")
}

func (m *Machine) rangeIter(x value) iter {
	switch x := x.(type) {
	case *omap:
		it := &omapIter{}
		if x != nil {
			it.snap = slices.Clone(x.entries)
		}
		return it
	case string:
		return &stringIter{s: x}
	case sstr:
		return &sstrIter{m: m, s: x}
	}
	panic(fmt.Sprintf("cannot range over %T", x))
}

// prepareCall determines the function value and argument values for a
// function call in a Call, Go or Defer instruction, performing
// interface method lookup if needed.
func (m *Machine) prepareCall(fr *frame, call *ssa.CallCommon) (fn value, args []value) {
	v := fr.get(call.Value)
	if call.Method == nil {
		// Function call.
		fn = v
	} else {
		// Interface method invocation.
		recv := v.(iface)
		if recv.t == nil {
			panic(runtimeError("invalid memory address or nil pointer dereference (method on nil interface)"))
		}
		if f := m.lookupMethod(recv.t, call.Method); f == nil {
			panic(fmt.Sprintf("method set for dynamic type %v does not contain %s", recv.t, call.Method))
		} else {
			fn = f
		}
		args = append(args, recv.v)
	}
	for _, arg := range call.Args {
		args = append(args, fr.get(arg))
	}
	return
}

// call interprets a call to a function (function, builtin or closure)
// fn with arguments args, returning its result.
func (m *Machine) call(caller *frame, callpos token.Pos, fn value, args []value) value {
	if callpos.IsValid() {
		m.lastCallPos = callpos
	}
	switch fn := fn.(type) {
	case *ssa.Function:
		if fn == nil {
			panic(runtimeError("invalid memory address or nil pointer dereference (call of nil func)"))
		}
		return m.callSSA(caller, callpos, fn, args, nil)
	case *closure:
		return m.callSSA(caller, callpos, fn.Fn, args, fn.Env)
	case *ssa.Builtin:
		return m.callBuiltin(caller, fn, args)
	}
	panic(fmt.Sprintf("cannot call %T", fn))
}

var fnKeyCache sync.Map // *ssa.Function -> string (building the name walks go/types: cache it)

func fnKey(fn *ssa.Function) string {
	if s, ok := fnKeyCache.Load(fn); ok {
		return s.(string)
	}
	var s string
	if o := fn.Origin(); o != nil {
		s = o.String()
	} else {
		s = fn.String()
	}
	fnKeyCache.Store(fn, s)
	return s
}

func fnPkgPath(fn *ssa.Function) string {
	if fn.Pkg != nil {
		return fn.Pkg.Pkg.Path()
	}
	if o := fn.Origin(); o != nil && o.Pkg != nil {
		return o.Pkg.Pkg.Path()
	}
	return ""
}

func (m *Machine) denied(fn *ssa.Function) bool {
	if fn.Pkg == nil {
		o := fn.Origin()
		if o == nil || o.Pkg == nil {
			return false
		}
		fn = o
	}
	p := fn.Pkg.Pkg.Path()
	for _, d := range m.cfg.DenyPkgs {
		if p == d || strings.HasPrefix(p, d+"/") {
			return true
		}
	}
	return false
}

// callSSA interprets a call to function fn with arguments args,
// and lexical environment env, returning its result.
func (m *Machine) callSSA(caller *frame, callpos token.Pos, fn *ssa.Function, args []value, env []value) value {
	if fn.Parent() == nil {
		key := fnKey(fn)
		if m.cfg.Stubs != nil {
			if repl, ok := m.cfg.Stubs[key]; ok {
				rf := m.FuncNamed(repl)
				if rf == nil {
					panic(unmodelled("stub target not found: " + repl))
				}
				m.IntrinsicsHit["stub:"+key]++
				fn = rf
				key = fnKey(fn)
			}
		}
		if in := intrinsics[key]; in != nil {
			m.IntrinsicsHit[key]++
			fr := &frame{m: m, caller: caller, fn: fn}
			return in(m, fr, fn, args)
		}
		if pp := fnPkgPath(fn); pp != "" && noopPkgs[pp] {
			m.IntrinsicsHit["noop-package:"+pp]++
			return zeroResults(fn)
		}
		if m.cfg.Merge[key] && m.merge == nil {
			if r, ok := m.callMerged(caller, callpos, fn, args, env); ok {
				return r
			}
		}
		if fn.Synthetic == "package initializer" {
			if fn.Pkg == nil || !m.cfg.InitPkgs[fn.Pkg.Pkg.Path()] {
				return nil
			}
		}
		if fn.Blocks == nil {
			panic(unmodelled("no code for function: " + key))
		}
		if m.denied(fn) {
			panic(unmodelled("function in denied package reached: " + key))
		}
	}
	return m.callSSAPlain(caller, callpos, fn, args, env)
}

// callSSAPlain executes the body of fn.
func (m *Machine) callSSAPlain(caller *frame, callpos token.Pos, fn *ssa.Function, args []value, env []value) value {
	if fn.TypeParams().Len() > 0 && len(fn.TypeArgs()) == 0 {
		panic("interp requires ssa.BuilderMode to include InstantiateGenerics to execute generics")
	}
	m.Covered[fn]++
	if m.cfg.Trace {
		fmt.Printf("ENTER %s\n", fn)
	}
	fr := &frame{
		m:      m,
		caller: caller, // for panic/recover
		fn:     fn,
	}
	fr.info = infoOf(fn)
	fr.env = make([]value, fr.info.n)
	fr.block = fn.Blocks[0]
	fr.locals = make([]value, len(fn.Locals))
	for i, l := range fn.Locals {
		fr.locals[i] = zero(mustDeref(l.Type()))
		fr.env[fr.ix(l)] = &fr.locals[i]
	}
	for i, p := range fn.Params {
		fr.env[fr.ix(p)] = args[i]
	}
	for i, fv := range fn.FreeVars {
		fr.env[fr.ix(fv)] = env[i]
	}
	for fr.block != nil {
		runFrame(fr)
	}
	return fr.result
}

// runFrame executes SSA instructions starting at fr.block and
// continuing until a return, a panic, or a recovered panic.
func runFrame(fr *frame) {
	defer func() {
		if fr.block == nil {
			return // normal return
		}
		p := recover()
		if a, ok := p.(abortPath); ok {
			if (a.Kind == "unmodelled" || a.Kind == "engine") && !strings.Contains(a.Msg, " [in ") {
				a.Msg += " [in " + fr.fn.String() + posOf(fr) + "]"
			}
			panic(a)
		}
		if s, ok := p.(string); ok && !strings.HasPrefix(s, "runtime error") {
			// interpreter-internal failure: not a target panic
			panic(abortPath{"engine", s + " in " + fr.fn.String()})
		}
		if re, ok := p.(runtime.Error); ok {
			if _, mine := p.(runtimeError); !mine {
				msg := re.Error()
				if strings.Contains(msg, "interface conversion") || strings.Contains(msg, "symx.") {
					panic(abortPath{"engine", msg + " in " + fr.fn.String() + posOf(fr)})
				}
			}
		}
		fr.panicking = true
		fr.panic = p
		fr.runDefers()
		fr.block = fr.fn.Recover
	}()

	for {
		nonPhis := executePhis(fr)
		for _, instr := range nonPhis {
			if visitInstr(fr, instr) == kReturn {
				return
			}
		}
	}
}

func posOf(fr *frame) string {
	if fr.block != nil && len(fr.block.Instrs) > 0 {
		for _, in := range fr.block.Instrs {
			if in.Pos().IsValid() {
				return " near " + fr.fn.Prog.Fset.Position(in.Pos()).String()
			}
		}
	}
	return ""
}

// executePhis executes the phi-nodes at the start of the current
// block and returns the non-phi instructions.
func executePhis(fr *frame) []ssa.Instruction {
	firstNonPhi := -1
	for i, instr := range fr.block.Instrs {
		if _, ok := instr.(*ssa.Phi); !ok {
			firstNonPhi = i
			break
		}
	}
	nonPhis := fr.block.Instrs[firstNonPhi:]
	if firstNonPhi > 0 {
		phis := fr.block.Instrs[:firstNonPhi]
		predIndex := slices.Index(fr.block.Preds, fr.prevBlock)
		fr.phitemps = fr.phitemps[:0]
		for _, phi := range phis {
			phi := phi.(*ssa.Phi)
			fr.phitemps = append(fr.phitemps, fr.get(phi.Edges[predIndex]))
		}
		for i, phi := range phis {
			fr.env[fr.ix(phi.(*ssa.Phi))] = fr.phitemps[i]
		}
	}
	return nonPhis
}

// doRecover implements the recover() built-in.
func (m *Machine) doRecover(caller *frame) value {
	if caller != nil && !caller.panicking &&
		caller.caller != nil && caller.caller.panicking {
		caller.caller.panicking = false
		p := caller.caller.panic
		caller.caller.panic = nil
		switch p := p.(type) {
		case targetPanic:
			return p.v
		case runtime.Error:
			return iface{m.runtimeErrorString, p.Error()}
		case string:
			return iface{m.runtimeErrorString, p}
		default:
			panic(fmt.Sprintf("unexpected panic type %T in target call to recover()", p))
		}
	}
	return iface{}
}

// callBuiltin interprets a call to builtin fn with arguments args.
func (m *Machine) callBuiltin(caller *frame, fn *ssa.Builtin, args []value) value {
	switch fn.Name() {
	case "append":
		if len(args) == 1 {
			return args[0]
		}
		switch s := args[1].(type) {
		case string:
			arg0 := args[0].([]value)
			for i := 0; i < len(s); i++ {
				arg0 = append(arg0, s[i])
			}
			return arg0
		case sstr:
			return append(args[0].([]value), s.b...)
		}
		src := args[1].([]value)
		dst := args[0].([]value)
		for _, e := range src {
			dst = append(dst, copyVal(e))
		}
		return dst

	case "copy": // copy([]T, []T) int or copy([]byte, string) int
		src := args[1]
		switch s := src.(type) {
		case string:
			src = strBytes(s)
		case sstr:
			src = s.b
		}
		dst := args[0].([]value)
		sv := src.([]value)
		n := len(dst)
		if len(sv) < n {
			n = len(sv)
		}
		if n > 0 && len(sv) > 0 && len(dst) > 0 {
			// handle overlap like memmove: copy through a temporary
			tmp := make([]value, n)
			for i := 0; i < n; i++ {
				tmp[i] = copyVal(sv[i])
			}
			copy(dst, tmp)
		}
		return n

	case "close": // close(chan T)
		close(args[0].(chan value))
		return nil

	case "delete": // delete(map[K]value, K)
		args[0].(*omap).delete(m, args[1])
		return nil

	case "clear":
		switch x := args[0].(type) {
		case *omap:
			x.clear()
		case []value:
			if len(x) > 0 {
				// zero value of element type from static type
				et := fn.Type().(*types.Signature).Params().At(0).Type().Underlying().(*types.Slice).Elem()
				for i := range x {
					x[i] = zero(et)
				}
			}
		}
		return nil

	case "print", "println": // print(any, ...)
		return nil

	case "len":
		switch x := args[0].(type) {
		case string:
			return len(x)
		case sstr:
			return len(x.b)
		case ostr:
			return m.ostrLen(x)
		case array:
			return len(x)
		case *value:
			return len((*x).(array))
		case []value:
			return len(x)
		case *omap:
			return x.len()
		case chan value:
			return len(x)
		default:
			panic(fmt.Sprintf("len: illegal operand: %T", x))
		}

	case "cap":
		switch x := args[0].(type) {
		case array:
			return cap(x)
		case *value:
			return cap((*x).(array))
		case []value:
			return cap(x)
		case chan value:
			return cap(x)
		default:
			panic(fmt.Sprintf("cap: illegal operand: %T", x))
		}

	case "min":
		return foldLeft(m.minv, args)
	case "max":
		return foldLeft(m.maxv, args)

	case "real":
		switch c := args[0].(type) {
		case complex64:
			return real(c)
		case complex128:
			return real(c)
		}
	case "imag":
		switch c := args[0].(type) {
		case complex64:
			return imag(c)
		case complex128:
			return imag(c)
		}
	case "complex":
		switch f := args[0].(type) {
		case float32:
			return complex(f, args[1].(float32))
		case float64:
			return complex(f, args[1].(float64))
		}

	case "panic":
		panic(targetPanic{args[0]})

	case "recover":
		return m.doRecover(caller)

	case "ssa:wrapnilchk":
		recv := args[0]
		if recv.(*value) == nil {
			recvType := args[1]
			methodName := args[2]
			panic(runtimeError(fmt.Sprintf("value method (%s).%s called using nil *%s pointer",
				recvType, methodName, recvType)))
		}
		return recv

	case "ssa:deferstack":
		return &caller.defers
	}

	panic("unknown built-in: " + fn.Name())
}

func (m *Machine) minv(x, y value) value {
	if isSym(x) || isSym(y) {
		k := kindOf(x)
		if kindIsFloat(k) {
			panic(unmodelled("min of symbolic floats"))
		}
		lt := m.binop(token.LSS, nil, y, x)
		return m.fromTerm(m.ctx.Ite(m.boolTerm(lt), m.termOf(y), m.termOf(x)), k)
	}
	return min(x, y)
}

func (m *Machine) maxv(x, y value) value {
	if isSym(x) || isSym(y) {
		k := kindOf(x)
		if kindIsFloat(k) {
			panic(unmodelled("max of symbolic floats"))
		}
		gt := m.binop(token.GTR, nil, y, x)
		return m.fromTerm(m.ctx.Ite(m.boolTerm(gt), m.termOf(y), m.termOf(x)), k)
	}
	return max(x, y)
}

func (m *Machine) ostrLen(x ostr) value {
	// only len(s)==0 / !=0 are meaningful: model as ite(s == "", 0, 1)
	c := m.ctx
	t := c.Ite(c.Eq(x.t, c.StrLit("")), c.BVC(64, 0), c.BVC(64, 1))
	return m.fromTerm(t, types.Int)
}
