package smt

import (
	"fmt"
	"io"
	"sort"
	"strconv"
	"strings"
	"time"
)

// Incremental session: declarations and definitions of terms are sent once, at the base
// level of one long-lived solver process; each query is (push 1) asserts (check-sat)
// [(get-value ...)] (pop 1). Measured on this code base's queries this is ~7x faster than
// (reset) per query, with identical verdicts.

const sessionMaxDefs = 150000

// incrementalLimitMs bounds a query in the incremental core; on unknown/time-out the query is
// re-decided one-shot with the caller's full limit.
const incrementalLimitMs = 3000

func litName(c *Ctx, s string) string {
	for i, x := range c.StrLits {
		if x.Name == s {
			return "lit!" + strconv.Itoa(i)
		}
	}
	return "lit!?"
}

// Check decides the conjunction of asserts.
func (s *Solver) Check(c *Ctx, asserts []*Term, wantModel bool, timeout time.Duration) (Result, Model) {
	for _, a := range asserts {
		if a.IsFalse() {
			return Unsat, nil
		}
	}
	var live []*Term
	seenA := map[*Term]bool{}
	for _, a := range asserts {
		if !a.IsTrue() && !seenA[a] {
			seenA[a] = true
			live = append(live, a)
		}
	}
	if len(live) == 0 {
		return Sat, Model{}
	}
	if s.sess != c || len(s.defined) > sessionMaxDefs {
		if s.sess != nil {
			s.restart()
		}
		s.sess = c
		s.declared, s.defined, s.inited = map[string]bool{}, map[int]bool{}, false
		s.icache = map[string]cached{}
	}
	ids := make([]int, len(live))
	for i, a := range live {
		ids[i] = a.ID
	}
	sort.Ints(ids)
	var kb strings.Builder
	for _, id := range ids {
		kb.WriteString(strconv.Itoa(id))
		kb.WriteByte(',')
	}
	key := kb.String()
	if cr, ok := s.icache[key]; ok && (!wantModel || cr.r != Sat || cr.m != nil) {
		s.Stats.CacheHit++
		return cr.r, cr.m
	}
	start := time.Now()
	s.Stats.Queries++

	// cone of influence in post-order
	var order []*Term
	seen := map[*Term]bool{}
	var walk func(t *Term)
	walk = func(t *Term) {
		if seen[t] {
			return
		}
		seen[t] = true
		for _, a := range t.Args {
			walk(a)
		}
		order = append(order, t)
	}
	for _, a := range live {
		walk(a)
	}
	var sb strings.Builder
	if !s.inited {
		// the process may still hold the definitions of a one-shot fallback query
		sb.WriteString("(reset)\n")
		ms := int(timeout / time.Millisecond)
		if ms > incrementalLimitMs {
			ms = incrementalLimitMs
		}
		switch s.Kind {
		case "z3new", "z3old":
			fmt.Fprintf(&sb, "(set-option :timeout %d)\n", ms)
		default:
			fmt.Fprintf(&sb, "(set-option :tlimit-per %d)\n(set-logic ALL)\n", ms)
		}
		s.inited = true
	}
	p := &printer{c: c, named: map[*Term]string{}, litName: map[string]string{}}
	var vars []*Term
	var lits []string
	for _, t := range order {
		switch t.Op {
		case OConst:
		case OVar:
			vars = append(vars, t)
			if t.S.K == KStr && !s.declared["sort:S"] {
				sb.WriteString("(declare-sort S 0)\n")
				s.declared["sort:S"] = true
			}
			if !s.declared["v:"+t.Name] {
				fmt.Fprintf(&sb, "(declare-const %s %s)\n", quoteSym(t.Name), t.S)
				s.declared["v:"+t.Name] = true
			}
		case OStrLit:
			if !s.declared["sort:S"] {
				sb.WriteString("(declare-sort S 0)\n")
				s.declared["sort:S"] = true
			}
			n := litName(c, t.Name)
			p.litName[t.Name] = n
			lits = append(lits, t.Name)
			if !s.declared["l:"+n] {
				fmt.Fprintf(&sb, "(declare-const %s S)\n", n)
				s.declared["l:"+n] = true
			}
		default:
			if t.Op == OUF && !s.declared["f:"+t.Name] {
				sig := c.UFs[t.Name]
				var as []string
				for _, x := range sig.args {
					as = append(as, x.String())
				}
				fmt.Fprintf(&sb, "(declare-fun %s (%s) %s)\n", quoteSym(t.Name), strings.Join(as, " "), sig.ret)
				s.declared["f:"+t.Name] = true
			}
			n := "t" + strconv.Itoa(t.ID)
			// args are already named (post-order): register names before printing
			for _, a := range t.Args {
				if a.Op != OConst && a.Op != OVar && a.Op != OStrLit {
					p.named[a] = "t" + strconv.Itoa(a.ID)
				}
			}
			if !s.defined[t.ID] {
				fmt.Fprintf(&sb, "(define-fun %s () %s %s)\n", n, t.S, p.expr(t))
				s.defined[t.ID] = true
			}
			p.named[t] = n
		}
	}
	sb.WriteString("(push 1)\n")
	if len(lits) > 1 {
		sb.WriteString("(assert (distinct")
		for _, l := range lits {
			sb.WriteString(" " + p.litName[l])
		}
		sb.WriteString("))\n")
	}
	for _, a := range live {
		fmt.Fprintf(&sb, "(assert %s)\n", p.ref(a))
	}
	sb.WriteString("(check-sat)\n")
	if s.Dump != nil {
		io.WriteString(s.Dump, sb.String())
	}
	if _, err := io.WriteString(s.in, sb.String()); err != nil {
		s.restart()
		s.Stats.Errors++
		s.LastError = "write failed: " + err.Error()
		return Unknown, nil
	}
	deadline := time.Now().Add(2*timeout + 5*time.Second)
	res := Unknown
	sawErr := false
	for {
		l, ok := s.readLine(deadline)
		if !ok {
			s.LastError = "solver timed out or died"
			s.restart()
			s.Stats.Unknown++
			s.Stats.Time += time.Since(start)
			return Unknown, nil
		}
		if l == "" {
			continue
		}
		if strings.HasPrefix(l, "(error") {
			sawErr = true
			s.LastError = l
			continue
		}
		if l == "sat" {
			res = Sat
			break
		}
		if l == "unsat" {
			res = Unsat
			break
		}
		if l == "unknown" || l == "timeout" {
			res = Unknown
			break
		}
	}
	var model Model
	if sawErr {
		// the session state is unreliable after an error: start afresh
		s.restart()
		s.Stats.Errors++
		s.Stats.Time += time.Since(start)
		return Unknown, nil
	}
	if res == Sat && wantModel {
		model = s.getModelInc(c, vars, lits, p, deadline)
		if model == nil {
			res = Unknown
		}
	}
	if s.cmd != nil {
		if _, err := io.WriteString(s.in, "(pop 1)\n"); err != nil {
			s.restart()
		}
	}
	if res == Unknown {
		// The incremental core gave up within its short limit: decide the query one-shot
		// (fresh context, the solver's full tactic portfolio, the full time limit).
		s.Stats.Time += time.Since(start)
		s.Stats.Queries--
		r2, m2 := s.CheckReset(c, live, wantModel, timeout)
		s.declared, s.defined, s.inited = map[string]bool{}, map[int]bool{}, false
		if r2 != Unknown {
			s.icache[key] = cached{r2, m2}
		}
		return r2, m2
	}
	switch res {
	case Sat:
		s.Stats.Sat++
	case Unsat:
		s.Stats.Unsat++
	}
	s.Stats.Time += time.Since(start)
	s.icache[key] = cached{res, model}
	return res, model
}

func (s *Solver) getModelInc(c *Ctx, vars []*Term, lits []string, p *printer, deadline time.Time) Model {
	m := Model{}
	if len(vars) == 0 && len(lits) == 0 {
		return m
	}
	var sb strings.Builder
	sb.WriteString("(get-value (")
	for _, v := range vars {
		sb.WriteString(quoteSym(v.Name) + " ")
	}
	for _, l := range lits {
		sb.WriteString(p.litName[l] + " ")
	}
	sb.WriteString("))\n")
	if _, err := io.WriteString(s.in, sb.String()); err != nil {
		s.restart()
		return nil
	}
	text, ok := s.readSexpr(deadline)
	if !ok {
		return nil
	}
	return parseValues(text, vars, lits)
}

// readSexpr reads one balanced s-expression (possibly over several lines).
func (s *Solver) readSexpr(deadline time.Time) (string, bool) {
	var text strings.Builder
	depth, started := 0, false
	for {
		l, ok := s.readLine(deadline)
		if !ok {
			s.restart()
			return "", false
		}
		if strings.HasPrefix(l, "(error") {
			s.LastError = l
			return "", false
		}
		text.WriteString(l)
		text.WriteByte(' ')
		inBar := false
		for _, r := range l {
			switch {
			case r == '|':
				inBar = !inBar
			case inBar:
			case r == '(':
				depth++
				started = true
			case r == ')':
				depth--
			}
		}
		if started && depth == 0 {
			return text.String(), true
		}
	}
}

func parseValues(text string, vars []*Term, lits []string) Model {
	m := Model{}
	toks := tokenize(text)
	pos := 1
	idx := 0
	strIntern := map[string]uint64{}
	for pos < len(toks)-1 {
		if toks[pos] != "(" {
			return nil
		}
		pos++
		pos++ // name
		var val string
		if toks[pos] == "(" {
			d := 0
			var parts []string
			for {
				if toks[pos] == "(" {
					d++
				} else if toks[pos] == ")" {
					d--
				}
				parts = append(parts, toks[pos])
				pos++
				if d == 0 {
					break
				}
			}
			val = strings.Join(parts, " ")
		} else {
			val = toks[pos]
			pos++
		}
		if toks[pos] != ")" {
			return nil
		}
		pos++
		var name string
		var srt Sort
		if idx < len(vars) {
			name, srt = vars[idx].Name, vars[idx].S
		} else if idx-len(vars) < len(lits) {
			name, srt = "@lit:"+lits[idx-len(vars)], StrSort
		} else {
			return nil
		}
		idx++
		switch srt.K {
		case KBool:
			if val == "true" {
				m[name] = 1
			} else {
				m[name] = 0
			}
		case KBV:
			if strings.HasPrefix(val, "#x") {
				u, _ := strconv.ParseUint(val[2:], 16, 64)
				m[name] = u
			} else if strings.HasPrefix(val, "#b") {
				u, _ := strconv.ParseUint(val[2:], 2, 64)
				m[name] = u
			} else if strings.HasPrefix(val, "( _ bv") {
				f := strings.Fields(val)
				u, _ := strconv.ParseUint(strings.TrimPrefix(f[2], "bv"), 10, 64)
				m[name] = u
			} else {
				return nil
			}
		case KStr:
			id, ok := strIntern[val]
			if !ok {
				id = uint64(len(strIntern) + 1)
				strIntern[val] = id
			}
			m[name] = id
		default:
			return nil
		}
	}
	return m
}
