// Package smt: hash-consed terms (Bool, bit-vectors, IEEE floats, one
// uninterpreted sort), simplification, concrete evaluation, SMT-LIB2 printing.
package smt

import (
	"fmt"
	"math"
	"math/bits"
	"strconv"
	"strings"
)

type SortKind uint8

const (
	KBool SortKind = iota
	KBV
	KFP  // W = 32 or 64
	KStr // uninterpreted sort S (opaque strings)
)

type Sort struct {
	K SortKind
	W int
}

var Bool = Sort{KBool, 0}
var StrSort = Sort{KStr, 0}

func BV(w int) Sort { return Sort{KBV, w} }
func FP(w int) Sort { return Sort{KFP, w} }

func (s Sort) String() string {
	switch s.K {
	case KBool:
		return "Bool"
	case KBV:
		return fmt.Sprintf("(_ BitVec %d)", s.W)
	case KFP:
		if s.W == 32 {
			return "(_ FloatingPoint 8 24)"
		}
		return "(_ FloatingPoint 11 53)"
	case KStr:
		return "S"
	}
	return "?"
}

type Op uint8

const (
	OConst Op = iota // bool / bv const (cval); fp const (cval = bits)
	OVar
	ONot
	OAnd
	OOr
	OIte
	OEq
	OAdd
	OSub
	OMul
	OUDiv
	OURem
	OSDiv
	OSRem
	OBAnd
	OBOr
	OBXor
	OBNot
	ONeg
	OShl
	OLShr
	OAShr
	OULt
	OULe
	OSLt
	OSLe
	OConcat
	OExtract // i1=hi i2=lo
	OZExt    // i1=extra bits
	OSExt    // i1=extra bits
	OFAdd
	OFSub
	OFMul
	OFDiv
	OFNeg
	OFLt
	OFLe
	OFEq
	OFIsNaN
	OFFromBV  // reinterpret bits
	OFToBV    // reinterpret (via fresh var semantics not needed; printed with fp.to_ieee_bv emulation)
	OFFromS   // signed int -> fp (RNE)
	OFFromU   // unsigned int -> fp
	OFToS     // fp -> signed bv (RTZ), i1=width
	OFToU     // fp -> unsigned bv (RTZ), i1=width
	OFToFP    // fp -> fp of other width (RNE)
	OUF       // uninterpreted function: name, args
	OStrLit   // opaque string literal constant (name = go string)
	numOps
)

type Term struct {
	ID   int
	Op   Op
	S    Sort
	Args []*Term
	C    uint64 // constant payload
	Name string
	I1   int
	I2   int
}

func (t *Term) IsConst() bool { return t.Op == OConst }
func (t *Term) IsTrue() bool  { return t.Op == OConst && t.S.K == KBool && t.C == 1 }
func (t *Term) IsFalse() bool { return t.Op == OConst && t.S.K == KBool && t.C == 0 }

// Ctx is a hash-consing table. Not safe for concurrent use: one per worker.
type Ctx struct {
	tab    map[string]*Term
	terms  []*Term
	Vars   []*Term
	varMap map[string]*Term
	StrLits []*Term
	UFs    map[string]ufSig
}

type ufSig struct {
	args []Sort
	ret  Sort
}

func NewCtx() *Ctx {
	return &Ctx{tab: map[string]*Term{}, varMap: map[string]*Term{}, UFs: map[string]ufSig{}}
}

func (c *Ctx) NumTerms() int { return len(c.terms) }

func (c *Ctx) mk(op Op, s Sort, cv uint64, name string, i1, i2 int, args ...*Term) *Term {
	var sb strings.Builder
	sb.WriteByte(byte(op))
	sb.WriteByte(byte(s.K))
	sb.WriteString(strconv.Itoa(s.W))
	sb.WriteByte(':')
	sb.WriteString(strconv.FormatUint(cv, 16))
	sb.WriteByte(':')
	sb.WriteString(name)
	sb.WriteByte(':')
	sb.WriteString(strconv.Itoa(i1))
	sb.WriteByte(',')
	sb.WriteString(strconv.Itoa(i2))
	for _, a := range args {
		sb.WriteByte(' ')
		sb.WriteString(strconv.Itoa(a.ID))
	}
	k := sb.String()
	if t, ok := c.tab[k]; ok {
		return t
	}
	t := &Term{ID: len(c.terms), Op: op, S: s, Args: args, C: cv, Name: name, I1: i1, I2: i2}
	c.terms = append(c.terms, t)
	c.tab[k] = t
	return t
}

func mask(w int) uint64 {
	if w >= 64 {
		return ^uint64(0)
	}
	return (uint64(1) << uint(w)) - 1
}

func (c *Ctx) True() *Term  { return c.mk(OConst, Bool, 1, "", 0, 0) }
func (c *Ctx) False() *Term { return c.mk(OConst, Bool, 0, "", 0, 0) }
func (c *Ctx) BoolC(b bool) *Term {
	if b {
		return c.True()
	}
	return c.False()
}
func (c *Ctx) BVC(w int, v uint64) *Term { return c.mk(OConst, BV(w), v&mask(w), "", 0, 0) }
func (c *Ctx) FPC(w int, bitsv uint64) *Term {
	return c.mk(OConst, FP(w), bitsv&mask(w), "", 0, 0)
}

func (c *Ctx) Var(name string, s Sort) *Term {
	if t, ok := c.varMap[name]; ok {
		if t.S != s {
			panic("smt: variable " + name + " redeclared with a different sort")
		}
		return t
	}
	t := c.mk(OVar, s, 0, name, 0, 0)
	c.varMap[name] = t
	c.Vars = append(c.Vars, t)
	return t
}

func (c *Ctx) StrLit(s string) *Term {
	t := c.mk(OStrLit, StrSort, 0, s, 0, 0)
	for _, x := range c.StrLits {
		if x == t {
			return t
		}
	}
	c.StrLits = append(c.StrLits, t)
	return t
}

func (c *Ctx) UF(name string, ret Sort, args ...*Term) *Term {
	if _, ok := c.UFs[name]; !ok {
		sig := ufSig{ret: ret}
		for _, a := range args {
			sig.args = append(sig.args, a.S)
		}
		c.UFs[name] = sig
	}
	return c.mk(OUF, ret, 0, name, 0, 0, args...)
}

// ---- boolean ----

func (c *Ctx) Not(a *Term) *Term {
	if a.IsConst() {
		return c.BoolC(a.C == 0)
	}
	if a.Op == ONot {
		return a.Args[0]
	}
	return c.mk(ONot, Bool, 0, "", 0, 0, a)
}

func (c *Ctx) And(a, b *Term) *Term {
	if a.IsFalse() || b.IsFalse() {
		return c.False()
	}
	if a.IsTrue() {
		return b
	}
	if b.IsTrue() {
		return a
	}
	if a == b {
		return a
	}
	if a.ID > b.ID {
		a, b = b, a
	}
	return c.mk(OAnd, Bool, 0, "", 0, 0, a, b)
}

func (c *Ctx) Or(a, b *Term) *Term {
	if a.IsTrue() || b.IsTrue() {
		return c.True()
	}
	if a.IsFalse() {
		return b
	}
	if b.IsFalse() {
		return a
	}
	if a == b {
		return a
	}
	if a.ID > b.ID {
		a, b = b, a
	}
	return c.mk(OOr, Bool, 0, "", 0, 0, a, b)
}

func (c *Ctx) Implies(a, b *Term) *Term { return c.Or(c.Not(a), b) }

func (c *Ctx) Ite(g, a, b *Term) *Term {
	if g.IsTrue() {
		return a
	}
	if g.IsFalse() {
		return b
	}
	if a == b {
		return a
	}
	if a.S.K == KBool {
		if a.IsTrue() && b.IsFalse() {
			return g
		}
		if a.IsFalse() && b.IsTrue() {
			return c.Not(g)
		}
	}
	return c.mk(OIte, a.S, 0, "", 0, 0, g, a, b)
}

func (c *Ctx) Eq(a, b *Term) *Term {
	if a.S != b.S {
		panic(fmt.Sprintf("smt.Eq: sort mismatch %v vs %v", a.S, b.S))
	}
	if a == b {
		if a.S.K == KFP {
			// structural equality of floats: (= x x) is true in SMT-LIB.
			return c.True()
		}
		return c.True()
	}
	if a.IsConst() && b.IsConst() {
		return c.BoolC(a.C == b.C)
	}
	if a.Op == OStrLit && b.Op == OStrLit {
		return c.BoolC(a.Name == b.Name)
	}
	if a.S.K == KBool {
		if a.IsConst() {
			a, b = b, a
		}
		if b.IsTrue() {
			return a
		}
		if b.IsFalse() {
			return c.Not(a)
		}
	}
	// ite(g, c1, c2) == c3 with constants
	if b.IsConst() && a.Op == OIte && a.Args[1].IsConst() && a.Args[2].IsConst() {
		return c.Ite(a.Args[0], c.BoolC(a.Args[1].C == b.C), c.BoolC(a.Args[2].C == b.C))
	}
	if a.IsConst() && b.Op == OIte && b.Args[1].IsConst() && b.Args[2].IsConst() {
		return c.Ite(b.Args[0], c.BoolC(b.Args[1].C == a.C), c.BoolC(b.Args[2].C == a.C))
	}
	if a.ID > b.ID {
		a, b = b, a
	}
	return c.mk(OEq, Bool, 0, "", 0, 0, a, b)
}

// ---- bit-vectors ----

func sext64(v uint64, w int) int64 {
	if w >= 64 {
		return int64(v)
	}
	sh := uint(64 - w)
	return int64(v<<sh) >> sh
}

func (c *Ctx) bvbin(op Op, a, b *Term) *Term {
	if a.S != b.S || a.S.K != KBV {
		panic(fmt.Sprintf("smt: bv binop %d sort mismatch %v vs %v", op, a.S, b.S))
	}
	w := a.S.W
	if a.IsConst() && b.IsConst() && w <= 64 {
		if v, ok := evalBVBin(op, w, a.C, b.C); ok {
			return c.BVC(w, v)
		}
	}
	switch op {
	case OAdd:
		if a.IsConst() && a.C == 0 {
			return b
		}
		if b.IsConst() && b.C == 0 {
			return a
		}
	case OSub:
		if b.IsConst() && b.C == 0 {
			return a
		}
		if a == b {
			return c.BVC(w, 0)
		}
	case OMul:
		if a.IsConst() && a.C == 1 {
			return b
		}
		if b.IsConst() && b.C == 1 {
			return a
		}
		if (a.IsConst() && a.C == 0) || (b.IsConst() && b.C == 0) {
			return c.BVC(w, 0)
		}
	case OBAnd:
		if a == b {
			return a
		}
		if (a.IsConst() && a.C == 0) || (b.IsConst() && b.C == 0) {
			return c.BVC(w, 0)
		}
		if a.IsConst() && a.C == mask(w) {
			return b
		}
		if b.IsConst() && b.C == mask(w) {
			return a
		}
	case OBOr:
		if a == b {
			return a
		}
		if a.IsConst() && a.C == 0 {
			return b
		}
		if b.IsConst() && b.C == 0 {
			return a
		}
	case OBXor:
		if a == b {
			return c.BVC(w, 0)
		}
		if a.IsConst() && a.C == 0 {
			return b
		}
		if b.IsConst() && b.C == 0 {
			return a
		}
	case OShl, OLShr, OAShr:
		if b.IsConst() && b.C == 0 {
			return a
		}
	}
	switch op {
	case OAdd, OMul, OBAnd, OBOr, OBXor:
		if a.ID > b.ID {
			a, b = b, a
		}
	}
	return c.mk(op, a.S, 0, "", 0, 0, a, b)
}

func evalBVBin(op Op, w int, x, y uint64) (uint64, bool) {
	m := mask(w)
	switch op {
	case OAdd:
		return (x + y) & m, true
	case OSub:
		return (x - y) & m, true
	case OMul:
		return (x * y) & m, true
	case OUDiv:
		if y == 0 {
			return m, true
		}
		return (x / y) & m, true
	case OURem:
		if y == 0 {
			return x, true
		}
		return (x % y) & m, true
	case OSDiv:
		sx, sy := sext64(x, w), sext64(y, w)
		if sy == 0 {
			if sx >= 0 {
				return m, true
			}
			return 1, true
		}
		if sy == -1 {
			return uint64(-sx) & m, true
		}
		return uint64(sx/sy) & m, true
	case OSRem:
		sx, sy := sext64(x, w), sext64(y, w)
		if sy == 0 {
			return x, true
		}
		if sy == -1 {
			return 0, true
		}
		return uint64(sx%sy) & m, true
	case OBAnd:
		return x & y, true
	case OBOr:
		return x | y, true
	case OBXor:
		return x ^ y, true
	case OShl:
		if y >= uint64(w) {
			return 0, true
		}
		return (x << y) & m, true
	case OLShr:
		if y >= uint64(w) {
			return 0, true
		}
		return (x >> y) & m, true
	case OAShr:
		sx := sext64(x, w)
		if y >= uint64(w) {
			if sx < 0 {
				return m, true
			}
			return 0, true
		}
		return uint64(sx>>y) & m, true
	}
	return 0, false
}

func (c *Ctx) Add(a, b *Term) *Term  { return c.bvbin(OAdd, a, b) }
func (c *Ctx) Sub(a, b *Term) *Term  { return c.bvbin(OSub, a, b) }
func (c *Ctx) Mul(a, b *Term) *Term  { return c.bvbin(OMul, a, b) }
func (c *Ctx) UDiv(a, b *Term) *Term { return c.bvbin(OUDiv, a, b) }
func (c *Ctx) URem(a, b *Term) *Term { return c.bvbin(OURem, a, b) }
func (c *Ctx) SDiv(a, b *Term) *Term { return c.bvbin(OSDiv, a, b) }
func (c *Ctx) SRem(a, b *Term) *Term { return c.bvbin(OSRem, a, b) }
func (c *Ctx) BAnd(a, b *Term) *Term { return c.bvbin(OBAnd, a, b) }
func (c *Ctx) BOr(a, b *Term) *Term  { return c.bvbin(OBOr, a, b) }
func (c *Ctx) BXor(a, b *Term) *Term { return c.bvbin(OBXor, a, b) }
func (c *Ctx) Shl(a, b *Term) *Term  { return c.bvbin(OShl, a, b) }
func (c *Ctx) LShr(a, b *Term) *Term { return c.bvbin(OLShr, a, b) }
func (c *Ctx) AShr(a, b *Term) *Term { return c.bvbin(OAShr, a, b) }

func (c *Ctx) BNot(a *Term) *Term {
	if a.IsConst() {
		return c.BVC(a.S.W, ^a.C)
	}
	if a.Op == OBNot {
		return a.Args[0]
	}
	return c.mk(OBNot, a.S, 0, "", 0, 0, a)
}

func (c *Ctx) Neg(a *Term) *Term {
	if a.IsConst() {
		return c.BVC(a.S.W, -a.C)
	}
	return c.mk(ONeg, a.S, 0, "", 0, 0, a)
}

func (c *Ctx) cmp(op Op, a, b *Term) *Term {
	if a.S != b.S || a.S.K != KBV {
		panic(fmt.Sprintf("smt: bv cmp sort mismatch %v vs %v", a.S, b.S))
	}
	// a <= b is kept as not(b < a): one canonical form, so that a comparison already decided
	// on the path is recognised syntactically whichever way the program wrote it.
	if op == OSLe {
		return c.Not(c.cmp(OSLt, b, a))
	}
	if op == OULe {
		return c.Not(c.cmp(OULt, b, a))
	}
	w := a.S.W
	if a.IsConst() && b.IsConst() {
		switch op {
		case OULt:
			return c.BoolC(a.C < b.C)
		case OULe:
			return c.BoolC(a.C <= b.C)
		case OSLt:
			return c.BoolC(sext64(a.C, w) < sext64(b.C, w))
		case OSLe:
			return c.BoolC(sext64(a.C, w) <= sext64(b.C, w))
		}
	}
	if a == b {
		return c.BoolC(op == OULe || op == OSLe)
	}
	// zext(x) <u const where const >= 2^origwidth
	if op == OULt && b.IsConst() && a.Op == OZExt {
		ow := a.Args[0].S.W
		if ow < 64 && b.C > mask(ow) {
			return c.True()
		}
	}
	if op == OULt && b.IsConst() && b.C == 0 {
		return c.False()
	}
	if op == OULe && a.IsConst() && a.C == 0 {
		return c.True()
	}
	return c.mk(op, Bool, 0, "", 0, 0, a, b)
}

func (c *Ctx) ULt(a, b *Term) *Term { return c.cmp(OULt, a, b) }
func (c *Ctx) ULe(a, b *Term) *Term { return c.cmp(OULe, a, b) }
func (c *Ctx) SLt(a, b *Term) *Term { return c.cmp(OSLt, a, b) }
func (c *Ctx) SLe(a, b *Term) *Term { return c.cmp(OSLe, a, b) }

func (c *Ctx) Concat(hi, lo *Term) *Term {
	w := hi.S.W + lo.S.W
	if hi.IsConst() && lo.IsConst() && w <= 64 {
		return c.BVC(w, hi.C<<uint(lo.S.W)|lo.C)
	}
	// concat(extract(h1,l1,x), extract(h2,l2,x)) with l1 == h2+1
	if hi.Op == OExtract && lo.Op == OExtract && hi.Args[0] == lo.Args[0] && hi.I2 == lo.I1+1 {
		return c.Extract(hi.Args[0], hi.I1, lo.I2)
	}
	return c.mk(OConcat, BV(w), 0, "", 0, 0, hi, lo)
}

func (c *Ctx) Extract(a *Term, hi, lo int) *Term {
	w := hi - lo + 1
	if lo == 0 && w == a.S.W {
		return a
	}
	if a.IsConst() {
		return c.BVC(w, a.C>>uint(lo))
	}
	switch a.Op {
	case OExtract:
		return c.Extract(a.Args[0], a.I2+hi, a.I2+lo)
	case OConcat:
		lw := a.Args[1].S.W
		if hi < lw {
			return c.Extract(a.Args[1], hi, lo)
		}
		if lo >= lw {
			return c.Extract(a.Args[0], hi-lw, lo-lw)
		}
	case OZExt:
		ow := a.Args[0].S.W
		if hi < ow {
			return c.Extract(a.Args[0], hi, lo)
		}
		if lo >= ow {
			return c.BVC(w, 0)
		}
	case OSExt:
		ow := a.Args[0].S.W
		if hi < ow {
			return c.Extract(a.Args[0], hi, lo)
		}
	case OBAnd, OBOr, OBXor:
		// push extract through bitwise ops when one side is constant
		if a.Args[0].IsConst() || a.Args[1].IsConst() {
			return c.bvbin(a.Op, c.Extract(a.Args[0], hi, lo), c.Extract(a.Args[1], hi, lo))
		}
	case OLShr:
		// extract(lshr(x, k)) with constant k
		if a.Args[1].IsConst() {
			k := int(a.Args[1].C)
			if hi+k < a.S.W {
				return c.Extract(a.Args[0], hi+k, lo+k)
			}
		}
	case OShl:
		if a.Args[1].IsConst() {
			k := int(a.Args[1].C)
			if lo >= k {
				return c.Extract(a.Args[0], hi-k, lo-k)
			}
			if hi < k {
				return c.BVC(w, 0)
			}
		}
	}
	return c.mk(OExtract, BV(w), 0, "", hi, lo, a)
}

func (c *Ctx) ZExt(a *Term, extra int) *Term {
	if extra == 0 {
		return a
	}
	if a.IsConst() {
		return c.BVC(a.S.W+extra, a.C)
	}
	if a.Op == OZExt {
		return c.ZExt(a.Args[0], a.I1+extra)
	}
	return c.mk(OZExt, BV(a.S.W+extra), 0, "", extra, 0, a)
}

func (c *Ctx) SExt(a *Term, extra int) *Term {
	if extra == 0 {
		return a
	}
	if a.IsConst() {
		return c.BVC(a.S.W+extra, uint64(sext64(a.C, a.S.W)))
	}
	if a.Op == OZExt {
		// sign bit is known zero
		return c.ZExt(a.Args[0], a.I1+extra)
	}
	return c.mk(OSExt, BV(a.S.W+extra), 0, "", extra, 0, a)
}

// Resize converts a bv term to width w with the given signedness of the source.
func (c *Ctx) Resize(a *Term, w int, signed bool) *Term {
	if a.S.W == w {
		return a
	}
	if a.S.W > w {
		return c.Extract(a, w-1, 0)
	}
	if signed {
		return c.SExt(a, w-a.S.W)
	}
	return c.ZExt(a, w-a.S.W)
}

// ---- floats ----

func (c *Ctx) fpbin(op Op, a, b *Term) *Term {
	if a.IsConst() && b.IsConst() {
		if a.S.W == 64 {
			x, y := math.Float64frombits(a.C), math.Float64frombits(b.C)
			var r float64
			switch op {
			case OFAdd:
				r = x + y
			case OFSub:
				r = x - y
			case OFMul:
				r = x * y
			case OFDiv:
				r = x / y
			}
			return c.FPC(64, math.Float64bits(r))
		}
		x, y := math.Float32frombits(uint32(a.C)), math.Float32frombits(uint32(b.C))
		var r float32
		switch op {
		case OFAdd:
			r = x + y
		case OFSub:
			r = x - y
		case OFMul:
			r = x * y
		case OFDiv:
			r = x / y
		}
		return c.FPC(32, uint64(math.Float32bits(r)))
	}
	return c.mk(op, a.S, 0, "", 0, 0, a, b)
}
func (c *Ctx) FAdd(a, b *Term) *Term { return c.fpbin(OFAdd, a, b) }
func (c *Ctx) FSub(a, b *Term) *Term { return c.fpbin(OFSub, a, b) }
func (c *Ctx) FMul(a, b *Term) *Term { return c.fpbin(OFMul, a, b) }
func (c *Ctx) FDiv(a, b *Term) *Term { return c.fpbin(OFDiv, a, b) }
func (c *Ctx) FNeg(a *Term) *Term {
	if a.IsConst() {
		return c.FPC(a.S.W, a.C^(uint64(1)<<uint(a.S.W-1)))
	}
	return c.mk(OFNeg, a.S, 0, "", 0, 0, a)
}

func fpval(t *Term) float64 {
	if t.S.W == 64 {
		return math.Float64frombits(t.C)
	}
	return float64(math.Float32frombits(uint32(t.C)))
}

func (c *Ctx) fpcmp(op Op, a, b *Term) *Term {
	if a.IsConst() && b.IsConst() {
		x, y := fpval(a), fpval(b)
		switch op {
		case OFLt:
			return c.BoolC(x < y)
		case OFLe:
			return c.BoolC(x <= y)
		case OFEq:
			return c.BoolC(x == y)
		}
	}
	return c.mk(op, Bool, 0, "", 0, 0, a, b)
}
func (c *Ctx) FLt(a, b *Term) *Term { return c.fpcmp(OFLt, a, b) }
func (c *Ctx) FLe(a, b *Term) *Term { return c.fpcmp(OFLe, a, b) }
func (c *Ctx) FEq(a, b *Term) *Term { return c.fpcmp(OFEq, a, b) }
func (c *Ctx) FIsNaN(a *Term) *Term {
	if a.IsConst() {
		v := fpval(a)
		return c.BoolC(v != v)
	}
	return c.mk(OFIsNaN, Bool, 0, "", 0, 0, a)
}
func (c *Ctx) FFromBV(a *Term) *Term {
	if a.IsConst() {
		return c.FPC(a.S.W, a.C)
	}
	return c.mk(OFFromBV, FP(a.S.W), 0, "", 0, 0, a)
}
func (c *Ctx) FFromInt(a *Term, signed bool, w int) *Term {
	if a.IsConst() {
		var f float64
		if signed {
			f = float64(sext64(a.C, a.S.W))
		} else {
			f = float64(a.C)
		}
		if w == 32 {
			var f32 float32
			if signed {
				f32 = float32(sext64(a.C, a.S.W))
			} else {
				f32 = float32(a.C)
			}
			return c.FPC(32, uint64(math.Float32bits(f32)))
		}
		return c.FPC(64, math.Float64bits(f))
	}
	op := OFFromU
	if signed {
		op = OFFromS
	}
	return c.mk(op, FP(w), 0, "", 0, 0, a)
}
func (c *Ctx) FToInt(a *Term, signed bool, w int) *Term {
	if a.IsConst() {
		f := fpval(a)
		if signed {
			return c.BVC(w, uint64(int64(f)))
		}
		return c.BVC(w, uint64(f))
	}
	op := OFToU
	if signed {
		op = OFToS
	}
	return c.mk(op, BV(w), 0, "", w, 0, a)
}
func (c *Ctx) FToFP(a *Term, w int) *Term {
	if a.S.W == w {
		return a
	}
	if a.IsConst() {
		if w == 32 {
			return c.FPC(32, uint64(math.Float32bits(float32(math.Float64frombits(a.C)))))
		}
		return c.FPC(64, math.Float64bits(float64(math.Float32frombits(uint32(a.C)))))
	}
	return c.mk(OFToFP, FP(w), 0, "", 0, 0, a)
}

// ---- evaluation under a model ----

type Model map[string]uint64 // var name -> bits (bool: 0/1); str sort: literal/elem index

func (c *Ctx) Eval(t *Term, m Model, memo map[*Term]uint64) uint64 {
	if v, ok := memo[t]; ok {
		return v
	}
	var r uint64
	a := func(i int) uint64 { return c.Eval(t.Args[i], m, memo) }
	b2u := func(b bool) uint64 {
		if b {
			return 1
		}
		return 0
	}
	switch t.Op {
	case OConst:
		r = t.C
	case OVar:
		r = m[t.Name]
	case OStrLit:
		r = m["@lit:"+t.Name]
	case ONot:
		r = 1 - a(0)
	case OAnd:
		r = a(0) & a(1)
	case OOr:
		r = a(0) | a(1)
	case OIte:
		if a(0) == 1 {
			r = a(1)
		} else {
			r = a(2)
		}
	case OEq:
		if t.Args[0].S.K == KStr {
			r = b2u(c.evalStr(t.Args[0], m, memo) == c.evalStr(t.Args[1], m, memo))
		} else {
			r = b2u(a(0) == a(1))
		}
	case OAdd, OSub, OMul, OUDiv, OURem, OSDiv, OSRem, OBAnd, OBOr, OBXor, OShl, OLShr, OAShr:
		r, _ = evalBVBin(t.Op, t.S.W, a(0), a(1))
	case OBNot:
		r = ^a(0) & mask(t.S.W)
	case ONeg:
		r = (-a(0)) & mask(t.S.W)
	case OULt:
		r = b2u(a(0) < a(1))
	case OULe:
		r = b2u(a(0) <= a(1))
	case OSLt:
		w := t.Args[0].S.W
		r = b2u(sext64(a(0), w) < sext64(a(1), w))
	case OSLe:
		w := t.Args[0].S.W
		r = b2u(sext64(a(0), w) <= sext64(a(1), w))
	case OConcat:
		r = a(0)<<uint(t.Args[1].S.W) | a(1)
	case OExtract:
		r = (a(0) >> uint(t.I2)) & mask(t.I1-t.I2+1)
	case OZExt:
		r = a(0)
	case OSExt:
		r = uint64(sext64(a(0), t.Args[0].S.W)) & mask(t.S.W)
	case OFAdd, OFSub, OFMul, OFDiv:
		if t.S.W == 64 {
			x, y := math.Float64frombits(a(0)), math.Float64frombits(a(1))
			var f float64
			switch t.Op {
			case OFAdd:
				f = x + y
			case OFSub:
				f = x - y
			case OFMul:
				f = x * y
			case OFDiv:
				f = x / y
			}
			r = math.Float64bits(f)
		} else {
			x, y := math.Float32frombits(uint32(a(0))), math.Float32frombits(uint32(a(1)))
			var f float32
			switch t.Op {
			case OFAdd:
				f = x + y
			case OFSub:
				f = x - y
			case OFMul:
				f = x * y
			case OFDiv:
				f = x / y
			}
			r = uint64(math.Float32bits(f))
		}
	case OFNeg:
		r = a(0) ^ (uint64(1) << uint(t.S.W-1))
	case OFLt, OFLe, OFEq:
		var x, y float64
		if t.Args[0].S.W == 64 {
			x, y = math.Float64frombits(a(0)), math.Float64frombits(a(1))
		} else {
			x, y = float64(math.Float32frombits(uint32(a(0)))), float64(math.Float32frombits(uint32(a(1))))
		}
		switch t.Op {
		case OFLt:
			r = b2u(x < y)
		case OFLe:
			r = b2u(x <= y)
		case OFEq:
			r = b2u(x == y)
		}
	case OFIsNaN:
		if t.Args[0].S.W == 64 {
			x := math.Float64frombits(a(0))
			r = b2u(x != x)
		} else {
			x := math.Float32frombits(uint32(a(0)))
			r = b2u(x != x)
		}
	case OFFromBV:
		r = a(0)
	case OFFromS, OFFromU:
		v := a(0)
		if t.S.W == 64 {
			if t.Op == OFFromS {
				r = math.Float64bits(float64(sext64(v, t.Args[0].S.W)))
			} else {
				r = math.Float64bits(float64(v))
			}
		} else {
			if t.Op == OFFromS {
				r = uint64(math.Float32bits(float32(sext64(v, t.Args[0].S.W))))
			} else {
				r = uint64(math.Float32bits(float32(v)))
			}
		}
	case OFToS, OFToU:
		var f float64
		if t.Args[0].S.W == 64 {
			f = math.Float64frombits(a(0))
		} else {
			f = float64(math.Float32frombits(uint32(a(0))))
		}
		if t.Op == OFToS {
			r = uint64(int64(f)) & mask(t.S.W)
		} else {
			r = uint64(f) & mask(t.S.W)
		}
	case OFToFP:
		if t.S.W == 32 {
			r = uint64(math.Float32bits(float32(math.Float64frombits(a(0)))))
		} else {
			r = math.Float64bits(float64(math.Float32frombits(uint32(a(0)))))
		}
	case OUF:
		// UF applications are evaluated through the model: the solver's value
		// for this application is stored under a synthetic name.
		r = m["@uf:"+strconv.Itoa(t.ID)]
	default:
		panic(fmt.Sprintf("smt.Eval: op %d", t.Op))
	}
	if memo != nil {
		memo[t] = r
	}
	return r
}

func (c *Ctx) evalStr(t *Term, m Model, memo map[*Term]uint64) uint64 {
	return c.Eval(t, m, memo)
}

// HasUF reports whether t contains an uninterpreted function application.
func HasUF(t *Term, seen map[*Term]bool) bool {
	if seen[t] {
		return false
	}
	seen[t] = true
	if t.Op == OUF {
		return true
	}
	for _, a := range t.Args {
		if HasUF(a, seen) {
			return true
		}
	}
	return false
}

// VarsOf collects the variables of t into set.
func VarsOf(t *Term, set map[*Term]bool, seen map[*Term]bool) {
	if seen[t] {
		return
	}
	seen[t] = true
	if t.Op == OVar {
		set[t] = true
		return
	}
	for _, a := range t.Args {
		VarsOf(a, set, seen)
	}
}

var _ = bits.Len
