package smt

import (
	"bufio"
	"fmt"
	"hash/fnv"
	"io"
	"os"
	"os/exec"
	"sort"
	"strconv"
	"strings"
	"time"
)

type Result int

const (
	Unknown Result = iota
	Sat
	Unsat
)

func (r Result) String() string {
	switch r {
	case Sat:
		return "sat"
	case Unsat:
		return "unsat"
	}
	return "unknown"
}

// ---- printing ----

func bvLit(w int, v uint64) string {
	if w%4 == 0 {
		return fmt.Sprintf("#x%0*x", w/4, v&mask(w))
	}
	return fmt.Sprintf("#b%0*b", w, v&mask(w))
}

func quoteSym(name string) string {
	ok := true
	for _, r := range name {
		if !(r >= 'a' && r <= 'z' || r >= 'A' && r <= 'Z' || r >= '0' && r <= '9' || r == '_' || r == '.' || r == '!' || r == '$') {
			ok = false
		}
	}
	if ok && name != "" {
		return name
	}
	return "|" + strings.NewReplacer("|", "_", "\\", "_").Replace(name) + "|"
}

func fpPrefix(w int) string {
	if w == 32 {
		return "(_ to_fp 8 24)"
	}
	return "(_ to_fp 11 53)"
}

var opNames = map[Op]string{
	ONot: "not", OAnd: "and", OOr: "or", OIte: "ite", OEq: "=",
	OAdd: "bvadd", OSub: "bvsub", OMul: "bvmul", OUDiv: "bvudiv", OURem: "bvurem", OSDiv: "bvsdiv", OSRem: "bvsrem",
	OBAnd: "bvand", OBOr: "bvor", OBXor: "bvxor", OBNot: "bvnot", ONeg: "bvneg", OShl: "bvshl", OLShr: "bvlshr", OAShr: "bvashr",
	OULt: "bvult", OULe: "bvule", OSLt: "bvslt", OSLe: "bvsle", OConcat: "concat",
	OFNeg: "fp.neg", OFLt: "fp.lt", OFLe: "fp.leq", OFEq: "fp.eq", OFIsNaN: "fp.isNaN",
}

type printer struct {
	c       *Ctx
	sb      *strings.Builder
	named   map[*Term]string
	litName map[string]string
}

func litSym(i int) string { return "lit!" + strconv.Itoa(i) }

func (p *printer) ref(t *Term) string {
	if n, ok := p.named[t]; ok {
		return n
	}
	switch t.Op {
	case OConst:
		switch t.S.K {
		case KBool:
			if t.C == 1 {
				return "true"
			}
			return "false"
		case KBV:
			return bvLit(t.S.W, t.C)
		case KFP:
			return "(" + fpPrefix(t.S.W) + " " + bvLit(t.S.W, t.C) + ")"
		}
	case OVar:
		return quoteSym(t.Name)
	case OStrLit:
		return p.litName[t.Name]
	}
	panic("printer.ref: unnamed non-leaf")
}

func (p *printer) expr(t *Term) string {
	args := make([]string, len(t.Args))
	for i, a := range t.Args {
		args[i] = p.ref(a)
	}
	j := strings.Join(args, " ")
	if n, ok := opNames[t.Op]; ok {
		return "(" + n + " " + j + ")"
	}
	switch t.Op {
	case OExtract:
		return fmt.Sprintf("((_ extract %d %d) %s)", t.I1, t.I2, j)
	case OZExt:
		return fmt.Sprintf("((_ zero_extend %d) %s)", t.I1, j)
	case OSExt:
		return fmt.Sprintf("((_ sign_extend %d) %s)", t.I1, j)
	case OFAdd:
		return "(fp.add RNE " + j + ")"
	case OFSub:
		return "(fp.sub RNE " + j + ")"
	case OFMul:
		return "(fp.mul RNE " + j + ")"
	case OFDiv:
		return "(fp.div RNE " + j + ")"
	case OFFromBV:
		return "(" + fpPrefix(t.S.W) + " " + j + ")"
	case OFFromS:
		return "(" + fpPrefix(t.S.W) + " RNE " + j + ")"
	case OFFromU:
		if t.S.W == 32 {
			return "((_ to_fp_unsigned 8 24) RNE " + j + ")"
		}
		return "((_ to_fp_unsigned 11 53) RNE " + j + ")"
	case OFToS:
		return fmt.Sprintf("((_ fp.to_sbv %d) RTZ %s)", t.S.W, j)
	case OFToU:
		return fmt.Sprintf("((_ fp.to_ubv %d) RTZ %s)", t.S.W, j)
	case OFToFP:
		return "(" + fpPrefix(t.S.W) + " RNE " + j + ")"
	case OUF:
		return "(" + quoteSym(t.Name) + " " + j + ")"
	}
	panic(fmt.Sprintf("printer.expr: op %d", t.Op))
}

// Script renders the declarations, definitions and assertions for the cone of
// influence of asserts. It returns the script and the variables in the cone.
func (c *Ctx) Script(asserts []*Term) (string, []*Term, []string) {
	var order []*Term
	seen := map[*Term]bool{}
	var walk func(t *Term)
	walk = func(t *Term) {
		if seen[t] {
			return
		}
		seen[t] = true
		for _, a := range t.Args {
			walk(a)
		}
		order = append(order, t)
	}
	for _, a := range asserts {
		walk(a)
	}
	var sb strings.Builder
	p := &printer{c: c, sb: &sb, named: map[*Term]string{}, litName: map[string]string{}}
	var vars []*Term
	var lits []string
	needS := false
	ufs := map[string]bool{}
	for _, t := range order {
		if t.S.K == KStr {
			needS = true
		}
		if t.Op == OUF {
			ufs[t.Name] = true
		}
	}
	if needS {
		sb.WriteString("(declare-sort S 0)\n")
	}
	for _, t := range order {
		switch t.Op {
		case OVar:
			vars = append(vars, t)
			fmt.Fprintf(&sb, "(declare-const %s %s)\n", quoteSym(t.Name), t.S)
		case OStrLit:
			n := litSym(len(lits))
			p.litName[t.Name] = n
			lits = append(lits, t.Name)
			fmt.Fprintf(&sb, "(declare-const %s S)\n", n)
		}
	}
	if len(lits) > 1 {
		sb.WriteString("(assert (distinct")
		for i := range lits {
			sb.WriteString(" " + litSym(i))
		}
		sb.WriteString("))\n")
	}
	ufNames := make([]string, 0, len(ufs))
	for n := range ufs {
		ufNames = append(ufNames, n)
	}
	sort.Strings(ufNames)
	for _, n := range ufNames {
		sig := c.UFs[n]
		var as []string
		for _, s := range sig.args {
			as = append(as, s.String())
		}
		fmt.Fprintf(&sb, "(declare-fun %s (%s) %s)\n", quoteSym(n), strings.Join(as, " "), sig.ret)
	}
	for _, t := range order {
		switch t.Op {
		case OConst, OVar, OStrLit:
			continue
		}
		n := "t" + strconv.Itoa(t.ID)
		fmt.Fprintf(&sb, "(define-fun %s () %s %s)\n", n, t.S, p.expr(t))
		p.named[t] = n
	}
	for _, a := range asserts {
		fmt.Fprintf(&sb, "(assert %s)\n", p.ref(a))
	}
	return sb.String(), vars, lits
}

// ---- solver process ----

type Stats struct {
	Queries  int
	Sat      int
	Unsat    int
	Unknown  int
	Errors   int
	CacheHit int
	Time     time.Duration
}

type Solver struct {
	Kind  string // z3new | z3old | cvc5 | cvc5int
	cmd   *exec.Cmd
	in    io.WriteCloser
	out   *bufio.Reader
	Stats Stats
	cache map[uint64]cached
	icache    map[string]cached
	sess      *Ctx
	declared  map[string]bool
	defined   map[int]bool
	inited    bool
	LastError string
	Dump  io.Writer // if non-nil, every script is copied here
}

type cached struct {
	r Result
	m Model
}

func solverArgv(kind string) []string {
	switch kind {
	case "z3new":
		return []string{"z3-new", "-in"}
	case "z3old":
		return []string{"/usr/bin/z3", "-in"}
	case "cvc5":
		return []string{"cvc5", "--incremental", "--produce-models"}
	case "cvc5int":
		return []string{"cvc5", "--incremental", "--produce-models", "--solve-bv-as-int=sum"}
	}
	panic("unknown solver kind " + kind)
}

func CommandLine(kind string) string { return strings.Join(solverArgv(kind), " ") }

func StartSolver(kind string) (*Solver, error) {
	s := &Solver{Kind: kind, cache: map[uint64]cached{}}
	if p := os.Getenv("GOSMT_DUMP"); p != "" {
		if f, err := os.OpenFile(fmt.Sprintf("%s.%d", p, os.Getpid()), os.O_CREATE|os.O_APPEND|os.O_WRONLY, 0o644); err == nil {
			s.Dump = f
		}
	}
	if err := s.start(); err != nil {
		return nil, err
	}
	return s, nil
}

func (s *Solver) start() error {
	argv := solverArgv(s.Kind)
	cmd := exec.Command(argv[0], argv[1:]...)
	in, err := cmd.StdinPipe()
	if err != nil {
		return err
	}
	out, err := cmd.StdoutPipe()
	if err != nil {
		return err
	}
	cmd.Stderr = cmd.Stdout
	if err := cmd.Start(); err != nil {
		return err
	}
	s.cmd, s.in, s.out = cmd, in, bufio.NewReaderSize(out, 1<<20)
	return nil
}

func (s *Solver) Close() {
	if s.cmd != nil {
		s.in.Close()
		s.cmd.Process.Kill()
		s.cmd.Wait()
		s.cmd = nil
	}
}

func (s *Solver) restart() {
	s.Close()
	s.start()
	s.declared, s.defined, s.inited = map[string]bool{}, map[int]bool{}, false
}

func (s *Solver) readLine(deadline time.Time) (string, bool) {
	type res struct {
		l   string
		err error
	}
	ch := make(chan res, 1)
	go func() {
		l, err := s.out.ReadString('\n')
		ch <- res{l, err}
	}()
	select {
	case r := <-ch:
		if r.err != nil {
			return "", false
		}
		return strings.TrimSpace(r.l), true
	case <-time.After(time.Until(deadline)):
		return "", false
	}
}

// Check decides the conjunction of asserts. timeout applies to the solver's
// own limit; a hard wall limit of 2x+5s restarts the process.
func (s *Solver) CheckReset(c *Ctx, asserts []*Term, wantModel bool, timeout time.Duration) (Result, Model) {
	for _, a := range asserts {
		if a.IsFalse() {
			return Unsat, nil
		}
	}
	var live []*Term
	for _, a := range asserts {
		if !a.IsTrue() {
			live = append(live, a)
		}
	}
	if len(live) == 0 {
		return Sat, Model{}
	}
	script, vars, lits := c.Script(live)
	h := fnv.New64a()
	h.Write([]byte(script))
	key := h.Sum64()
	if cr, ok := s.cache[key]; ok && (!wantModel || cr.r != Sat || cr.m != nil) {
		s.Stats.CacheHit++
		return cr.r, cr.m
	}
	start := time.Now()
	s.Stats.Queries++
	var sb strings.Builder
	sb.WriteString("(reset)\n")
	ms := int(timeout / time.Millisecond)
	switch s.Kind {
	case "z3new", "z3old":
		fmt.Fprintf(&sb, "(set-option :timeout %d)\n", ms)
	default:
		fmt.Fprintf(&sb, "(set-option :tlimit-per %d)\n(set-logic ALL)\n", ms)
	}
	sb.WriteString(script)
	sb.WriteString("(check-sat)\n")
	if s.Dump != nil {
		io.WriteString(s.Dump, sb.String())
	}
	if _, err := io.WriteString(s.in, sb.String()); err != nil {
		s.restart()
		s.Stats.Errors++
		s.LastError = "write failed: " + err.Error()
		return Unknown, nil
	}
	deadline := time.Now().Add(2*timeout + 5*time.Second)
	res := Unknown
	sawErr := false
	for {
		l, ok := s.readLine(deadline)
		if !ok {
			s.LastError = "solver timed out or died"
			s.restart()
			s.Stats.Unknown++
			s.Stats.Time += time.Since(start)
			return Unknown, nil
		}
		if l == "" {
			continue
		}
		if strings.HasPrefix(l, "(error") {
			sawErr = true
			s.LastError = l
			continue
		}
		if l == "sat" {
			res = Sat
			break
		}
		if l == "unsat" {
			res = Unsat
			break
		}
		if l == "unknown" || l == "timeout" {
			res = Unknown
			break
		}
		// other output (warnings): ignore
	}
	if sawErr {
		s.Stats.Errors++
		s.Stats.Time += time.Since(start)
		return Unknown, nil
	}
	var model Model
	if res == Sat && wantModel {
		model = s.getModel(vars, lits, deadline)
		if model == nil {
			res = Unknown
		}
	}
	switch res {
	case Sat:
		s.Stats.Sat++
	case Unsat:
		s.Stats.Unsat++
	default:
		s.Stats.Unknown++
	}
	s.Stats.Time += time.Since(start)
	if res != Unknown {
		s.cache[key] = cached{res, model}
	}
	return res, model
}

func (s *Solver) getModel(vars []*Term, lits []string, deadline time.Time) Model {
	m := Model{}
	if len(vars) == 0 && len(lits) == 0 {
		return m
	}
	var sb strings.Builder
	sb.WriteString("(get-value (")
	for _, v := range vars {
		sb.WriteString(quoteSym(v.Name) + " ")
	}
	for i := range lits {
		sb.WriteString(litSym(i) + " ")
	}
	sb.WriteString("))\n")
	if _, err := io.WriteString(s.in, sb.String()); err != nil {
		s.restart()
		return nil
	}
	// read balanced s-expression
	var text strings.Builder
	depth, started := 0, false
	for {
		l, ok := s.readLine(deadline)
		if !ok {
			s.restart()
			return nil
		}
		if strings.HasPrefix(l, "(error") {
			s.LastError = l
			return nil
		}
		text.WriteString(l)
		text.WriteByte(' ')
		inBar := false
		for _, r := range l {
			switch {
			case r == '|':
				inBar = !inBar
			case inBar:
			case r == '(':
				depth++
				started = true
			case r == ')':
				depth--
			}
		}
		if started && depth == 0 {
			break
		}
	}
	toks := tokenize(text.String())
	// expect ( (name value) ... )
	pos := 1
	idx := 0
	strIntern := map[string]uint64{}
	for pos < len(toks)-1 {
		if toks[pos] != "(" {
			return nil
		}
		pos++
		pos++ // name
		// value: atom or nested sexpr
		var val string
		if toks[pos] == "(" {
			d := 0
			var parts []string
			for {
				if toks[pos] == "(" {
					d++
				} else if toks[pos] == ")" {
					d--
				}
				parts = append(parts, toks[pos])
				pos++
				if d == 0 {
					break
				}
			}
			val = strings.Join(parts, " ")
		} else {
			val = toks[pos]
			pos++
		}
		if toks[pos] != ")" {
			return nil
		}
		pos++
		var name string
		var srt Sort
		if idx < len(vars) {
			name, srt = vars[idx].Name, vars[idx].S
		} else {
			name, srt = "@lit:"+lits[idx-len(vars)], StrSort
		}
		idx++
		switch srt.K {
		case KBool:
			if val == "true" {
				m[name] = 1
			} else {
				m[name] = 0
			}
		case KBV:
			if strings.HasPrefix(val, "#x") {
				u, _ := strconv.ParseUint(val[2:], 16, 64)
				m[name] = u
			} else if strings.HasPrefix(val, "#b") {
				u, _ := strconv.ParseUint(val[2:], 2, 64)
				m[name] = u
			} else if strings.HasPrefix(val, "( _ bv") {
				f := strings.Fields(val)
				u, _ := strconv.ParseUint(strings.TrimPrefix(f[2], "bv"), 10, 64)
				m[name] = u
			} else {
				return nil
			}
		case KStr:
			id, ok := strIntern[val]
			if !ok {
				id = uint64(len(strIntern) + 1)
				strIntern[val] = id
			}
			m[name] = id
		default:
			return nil
		}
	}
	return m
}

func tokenize(s string) []string {
	var toks []string
	i := 0
	for i < len(s) {
		ch := s[i]
		switch {
		case ch == ' ' || ch == '\t' || ch == '\n' || ch == '\r':
			i++
		case ch == '(' || ch == ')':
			toks = append(toks, string(ch))
			i++
		case ch == '|':
			j := i + 1
			for j < len(s) && s[j] != '|' {
				j++
			}
			toks = append(toks, s[i:j+1])
			i = j + 1
		default:
			j := i
			for j < len(s) && !strings.ContainsRune(" \t\n\r()", rune(s[j])) {
				j++
			}
			toks = append(toks, s[i:j])
			i = j
		}
	}
	return toks
}
