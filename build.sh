#!/bin/sh
# developer helper: rebuild the engine
cd /verif/engine && PATH=/opt/veriftools/go1.26.8/bin:$PATH GOTOOLCHAIN=local GOFLAGS=-mod=mod GOPROXY=off GOSUMDB=off go build -o ../bin/gosmt ./cmd/gosmt
